//! E1: explicit-state breadth-first search over operation histories on the real `World`, with a
//! lock-step reference model.  See /verif/DESIGN.md §1.4.

use mccore::comp;
use mccore::s4::*;
use mccore::{arena, util};
use std::collections::{BTreeMap, HashSet};
use std::mem::ManuallyDrop;
use std::panic::{catch_unwind, AssertUnwindSafe};
use std::time::Instant;

mod pairs;
mod w0;
mod w64;

#[global_allocator]
static GLOBAL: arena::Arena = arena::Arena;

pub use mccore::s4::alphabet;

#[derive(Clone)]
pub enum Outcome {
    Disabled,
    State { hash: u128, class: Option<&'static str>, allocs: u64 },
    Violation(Vec<Failure>),
}

struct RunCfg<'a> {
    /// operations applied before the explored history (exploration from a non-initial state); never disabled
    prelude: &'a [Op],
    ops: &'a [Op],
    props: &'a [Prop],
    salt: usize,
    check_all_steps: bool,
    verbose: bool,
}

/// Executes one history on a fresh world inside a fresh arena.
fn run_one(cfg: &RunCfg, hist: &[u8]) -> Outcome {
    arena::begin(cfg.salt);
    comp::ledger_begin();
    let mut chk = Checker::default();
    let mut state: Option<(u128, Option<&'static str>)> = None;
    let mut disabled = false;
    let r = catch_unwind(AssertUnwindSafe(|| {
        let mut ex = ManuallyDrop::new(Exec::new());
        let n = hist.len();
        for (i, op) in cfg.prelude.iter().enumerate() {
            ex.class = None;
            if ex.apply(op, &mut chk) == Step::Disabled {
                panic!("machinery: disabled op inside a prelude");
            }
            if n == 0 && i + 1 == cfg.prelude.len() {
                ex.check_state(&mut chk, op);
            }
        }
        for (i, &oi) in hist.iter().enumerate() {
            let op = &cfg.ops[oi as usize];
            ex.class = None;
            let last = i + 1 == n;
            let step = ex.apply(op, &mut chk);
            if step == Step::Disabled {
                if !last {
                    panic!("machinery: disabled op inside a representative history");
                }
                disabled = true;
                break;
            }
            if last || cfg.check_all_steps {
                ex.check_state(&mut chk, op);
                if cfg.verbose {
                    arena::with_system(|| println!("  step {i}: {:?} -> {} failures so far", op, chk.fails.len()));
                }
            }
        }
        if !disabled {
            let c = ex.canon();
            state = Some((util::hash128(&c), ex.class));
        }
        // tear down: drop both worlds (order varies with the history), then the ledger must be empty
        let lastk = hist.last().map_or("init", |&oi| cfg.ops[oi as usize].kind());
        let Exec { w, aux, m, maux, twin, .. } = ManuallyDrop::into_inner(ex);
        if hist.len() % 3 == 0 {
            drop(twin);
        }
        if hist.len() % 2 == 0 {
            drop(w);
            drop(aux);
        } else {
            drop(aux);
            drop(w);
        }
        drop((m, maux));
        if !disabled {
            let live = comp::with_ledger(|l| l.live_serials()).unwrap_or_default();
            if !live.is_empty() {
                chk.fail(Prop::C04, &format!("not-dropped-with-world after={}", lastk), format!("serials {:?} still alive after every world was dropped", live));
            }
            if comp::zst_live(1) != 0 {
                chk.fail(Prop::C04, &format!("zst-count-at-drop after={}", lastk), format!("{} Z values alive after every world was dropped", comp::zst_live(1)));
            }
            // re-evaluate ledger errors raised by the drops
            let errs = comp::with_ledger(|l| l.errors.clone()).unwrap_or_default();
            for e in errs {
                match e {
                    comp::TokErr::DoubleDrop { .. } | comp::TokErr::ZstUnderflow { .. } => chk.fail(Prop::C04, &format!("double-drop-at-world-drop after={}", lastk), format!("{:?}", e)),
                    _ => chk.fail(Prop::C05, &format!("bad-value-at-world-drop after={}", lastk), format!("{:?}", e)),
                }
            }
        }
    }));
    let lastk = hist.last().map_or("init", |&oi| cfg.ops[oi as usize].kind());
    if let Err(p) = r {
        drop(p);
        let msg = util::take_last_panic();
        for &p in cfg.props {
            chk.fail(p, &format!("panic op={}", lastk), format!("operation panicked: {}", msg));
        }
    }
    // move the failures out of the arena before it is closed
    let mut fails: Vec<Failure> = arena::with_system(|| {
        chk.fails.iter().map(|f| Failure { prop: f.prop, key: f.key.as_str().to_owned(), detail: f.detail.as_str().to_owned() }).collect()
    });
    drop(chk);
    drop(comp::ledger_end());
    let rep = arena::end();
    if !disabled {
        let panicked = fails.iter().any(|f| f.key.starts_with("panic "));
        if !rep.errors.is_empty() {
            fails.push(Failure { prop: Prop::C05, key: format!("allocator-misuse after={}", lastk), detail: rep.describe() });
        } else if rep.leaked_blocks > 0 && !panicked {
            fails.push(Failure { prop: Prop::C05, key: format!("memory-not-returned after={}", lastk), detail: rep.describe() });
        }
    }
    let fails: Vec<Failure> = fails.into_iter().filter(|f| cfg.props.contains(&f.prop)).collect();
    if disabled {
        return Outcome::Disabled;
    }
    if !fails.is_empty() {
        return Outcome::Violation(fails);
    }
    match state {
        Some((hash, class)) => Outcome::State { hash, class, allocs: rep.total_allocs },
        None => Outcome::Violation(vec![Failure { prop: cfg.props[0], key: "no-state".into(), detail: "execution produced no state".into() }]),
    }
}

pub struct ConfigResult {
    pub all_states: Vec<Vec<u8>>,
    pub name: String,
    pub depth_done: usize,
    pub states: usize,
    pub transitions: u64,
    pub disabled: u64,
    pub per_level: Vec<(usize, u64)>,
    pub per_op: BTreeMap<&'static str, u64>,
    pub classes: BTreeMap<&'static str, u64>,
    pub samples: Vec<String>,
    pub max_allocs: u64,
}

pub struct Found {
    pub prop: Prop,
    pub key: String,
    pub detail: String,
    pub config: String,
    pub hist: Vec<u8>,
    pub arena: usize,
    pub count: u64,
}

/// An alphabet together with the harness that executes histories over it (the S4 harness or one of the
/// wide-registry harnesses).
pub struct Alpha {
    pub n: usize,
    pub kinds: Vec<&'static str>,
    pub names: Vec<String>,
    pub run: Box<dyn Fn(&[u8], &[Prop], bool) -> Outcome + Sync + Send>,
}

pub fn alpha(name: &str) -> Alpha {
    use mcwide::{self as wide, WOp};
    fn conv(o: wide::WideOutcome) -> Outcome {
        if o.disabled {
            Outcome::Disabled
        } else if !o.fails.is_empty() {
            Outcome::Violation(o.fails)
        } else {
            Outcome::State { hash: o.hash, class: None, allocs: o.allocs }
        }
    }
    if name == "w64" {
        let ops = w64::alphabet0();
        let ops2 = ops.clone();
        return Alpha {
            n: ops.len(),
            kinds: ops.iter().map(|o| o.kind()).collect(),
            names: ops.iter().map(|o| format!("{:?}", o)).collect(),
            run: Box::new(move |hist, props, _verbose| {
                let o = w64::run_one(&ops2, hist, props);
                if o.disabled {
                    Outcome::Disabled
                } else if !o.fails.is_empty() {
                    Outcome::Violation(o.fails)
                } else {
                    Outcome::State { hash: o.hash, class: None, allocs: o.allocs }
                }
            }),
        };
    }
    if name == "w0" {
        let ops = w0::alphabet0();
        let ops2 = ops.clone();
        return Alpha {
            n: ops.len(),
            kinds: ops.iter().map(|o| o.kind()).collect(),
            names: ops.iter().map(|o| format!("{:?}", o)).collect(),
            run: Box::new(move |hist, props, _verbose| {
                let o = w0::run_one(&ops2, hist, props);
                if o.disabled {
                    Outcome::Disabled
                } else if !o.fails.is_empty() {
                    Outcome::Violation(o.fails)
                } else {
                    Outcome::State { hash: o.hash, class: None, allocs: o.allocs }
                }
            }),
        };
    }
    let wide_run: Option<fn(&[WOp], &[u8], &[Prop]) -> wide::WideOutcome> = match name {
        "w8" => Some(w8::run_one),
        "w9" => Some(w9::run_one),
        "w10" => Some(w10::run_one),
        _ => None,
    };
    if let Some(f) = wide_run {
        let ops = wide::wide_alphabet();
        let ops2 = ops.clone();
        return Alpha {
            n: ops.len(),
            kinds: ops.iter().map(|o| o.kind()).collect(),
            names: ops.iter().map(|o| format!("{:?}", o)).collect(),
            run: Box::new(move |hist, props, _verbose| conv(f(&ops2, hist, props))),
        };
    }
    // "name@k": the same alphabet with arena address salt k (table iteration order is address dependent)
    let (base, salt) = match name.split_once('@') {
        Some((b, k)) => (b, k.parse::<usize>().expect("salt")),
        None => (name, 0),
    };
    // "alphabet+prelude": the exploration starts from the state the named prelude builds
    let (base, pre) = match base.split_once('+') {
        Some((b, p)) => (b, prelude(p)),
        None => (base, vec![]),
    };
    let ops = alphabet(base);
    let ops2 = ops.clone();
    Alpha {
        n: ops.len(),
        kinds: ops.iter().map(|o| o.kind()).collect(),
        names: ops.iter().map(|o| format!("{:?}", o)).collect(),
        run: Box::new(move |hist, props, verbose| run_one(&RunCfg { prelude: &pre, ops: &ops2, props, salt, check_all_steps: false, verbose }, hist)),
    }
}

/// Named preludes: fixed operation sequences that put the world into a state the breadth-first search cannot
/// reach within its depth bound (many tables, so that the table map has grown and rehashed; emptied tables;
/// a free list with several generations), from which the search then starts.
pub fn prelude(name: &str) -> Vec<Op> {
    use Op::*;
    use Tgt::*;
    match name {
        // 13 tables, one row each (every shape but AZ, ZO, AZO); the first entity has no component, the second
        // has A: the shape alphabet creates the 14th and the 15th table (the table map then grows from 16
        // to 32 buckets while locations point into it)
        "t13" => [0u8, 1, 2, 4, 5, 8, 9, 10, 11, 12, 13, 14, 15].iter().map(|&mask| Insert { mask, rev: mask % 2 == 1 }).collect(),
        // the same for the twin / ctwin / copy alphabets: every shape but AZ, AO, ZOB; the first entity has A
        "t13w" => [1u8, 0, 2, 4, 6, 7, 8, 9, 10, 11, 12, 13, 15].iter().map(|&mask| Insert { mask, rev: mask % 2 == 0 }).collect(),
        // all 16 tables; three emptied again (one by a shape change), one refilled, three slots on the free list
        "t16" => {
            let mut v: Vec<Op> = (0..16u8).map(|mask| Insert { mask, rev: mask % 3 == 1 }).collect();
            v.extend([Remove(Lo), Remove(Mid), Remove(Hi), Add(Lo, 1), RemoveComp(Mid, 0)]);
            v
        }
        // free list of three slots with generations 1, 2, 1; rows swapped; one emptied table
        "gen" => vec![
            Extend { mask: 1, n: 3, style: 0 },
            Insert { mask: 5, rev: true },
            Remove(Lo),
            Insert { mask: 1, rev: false },
            Remove(Lo),
            Remove(Lo),
            Remove(Mid),
            Extend { mask: 1, n: 2, style: 0 },
            Remove(Mid),
        ],
        _ => panic!("unknown prelude {name}"),
    }
}

fn render(al: &Alpha, hist: &[u8]) -> String {
    hist.iter().map(|&i| al.names[i as usize].clone()).collect::<Vec<_>>().join("; ")
}

pub fn bfs(name: &str, depth: usize, props: &[Prop], threads: usize, found: &mut Vec<Found>, deadline: Instant) -> ConfigResult {
    let al = alpha(name);
    let mut visited: HashSet<u128> = HashSet::new();
    let mut frontier: Vec<Vec<u8>> = vec![vec![]];
    let mut res = ConfigResult {
        all_states: vec![vec![]],
        name: name.to_string(),
        depth_done: 0,
        states: 0,
        transitions: 0,
        disabled: 0,
        per_level: vec![],
        per_op: BTreeMap::new(),
        classes: BTreeMap::new(),
        samples: vec![],
        max_allocs: 0,
    };
    // initial state
    {
        let h = std::thread::scope(|s| {
            s.spawn(|| {
                arena::init_thread(0);
                (al.run)(&[], props, false)
            })
            .join()
            .unwrap()
        });
        if let Outcome::State { hash, .. } = h {
            visited.insert(hash);
        }
    }
    for d in 1..=depth {
        if Instant::now() > deadline {
            break;
        }
        let nitems = frontier.len() * al.n;
        let results: Vec<Vec<(usize, Outcome)>> = std::thread::scope(|s| {
            let handles: Vec<_> = (0..threads)
                .map(|t| {
                    let frontier = &frontier;
                    let al = &al;
                    s.spawn(move || {
                        arena::init_thread(t);
                        let mut out = Vec::with_capacity(nitems / threads + 1);
                        let mut hist: Vec<u8> = Vec::with_capacity(16);
                        let mut desc = String::with_capacity(128);
                        let mut i = t;
                        while i < nitems {
                            let (fi, oi) = (i / al.n, i % al.n);
                            hist.clear();
                            hist.extend_from_slice(&frontier[fi]);
                            hist.push(oi as u8);
                            desc.clear();
                            use std::fmt::Write;
                            let _ = write!(desc, "engine=hist config={} arena={} hist={:?}", name, t, hist);
                            util::set_crash_descriptor(&desc);
                            out.push((i, (al.run)(&hist, props, false)));
                            i += threads;
                        }
                        out
                    })
                })
                .collect();
            handles.into_iter().map(|h| h.join().expect("worker thread died")).collect()
        });
        let mut flat: Vec<Option<Outcome>> = vec![None; nitems];
        for v in results {
            for (i, o) in v {
                flat[i] = Some(o);
            }
        }
        let mut next: Vec<Vec<u8>> = Vec::new();
        let mut level_trans = 0u64;
        for (i, o) in flat.into_iter().enumerate() {
            let (fi, oi) = (i / al.n, i % al.n);
            match o.unwrap() {
                Outcome::Disabled => res.disabled += 1,
                Outcome::State { hash, class, allocs } => {
                    level_trans += 1;
                    *res.per_op.entry(al.kinds[oi]).or_default() += 1;
                    if let Some(c) = class {
                        *res.classes.entry(c).or_default() += 1;
                    }
                    res.max_allocs = res.max_allocs.max(allocs);
                    if visited.insert(hash) {
                        let mut h = frontier[fi].clone();
                        h.push(oi as u8);
                        next.push(h);
                    }
                }
                Outcome::Violation(fails) => {
                    level_trans += 1;
                    *res.per_op.entry(al.kinds[oi]).or_default() += 1;
                    let mut h = frontier[fi].clone();
                    h.push(oi as u8);
                    for f in fails {
                        if let Some(x) = found.iter_mut().find(|x| x.prop == f.prop && x.key == f.key) {
                            x.count += 1;
                        } else {
                            found.push(Found { prop: f.prop, key: f.key, detail: f.detail, config: name.to_string(), hist: h.clone(), arena: i % threads, count: 1 });
                        }
                    }
                }
            }
        }
        res.transitions += level_trans;
        res.per_level.push((next.len(), level_trans));
        res.depth_done = d;
        if let Some(h) = next.get(next.len() / 2) {
            res.samples.push(render(&al, h));
        }
        res.all_states.extend(next.iter().cloned());
        frontier = next;
        if frontier.is_empty() {
            break;
        }
    }
    res.states = visited.len();
    if let Ok(path) = std::env::var("HIST_DUMP") {
        // debugging aid: representative histories of all states
        let text: String = res.all_states.iter().map(|h| format!("{:?}\n", h)).collect();
        let _ = std::fs::write(path, text);
    }
    res
}

fn default_configs(prop: Prop, tier: &str) -> Vec<(&'static str, usize)> {
    let q = tier == "quick";
    match prop {
        Prop::C01 => {
            if q { vec![("shape", 7), ("alloc", 8), ("copy", 7), ("all", 3), ("zbig", 6), ("w8", 5), ("w9", 5), ("w10", 5), ("w0", 5), ("w64", 4), ("shape+t13", 4), ("copy+t16", 3), ("alloc+gen", 5)] } else { vec![("shape", 8), ("alloc", 10), ("copy", 8), ("all", 4), ("zbig", 7), ("w8", 7), ("w9", 7), ("w10", 7), ("w0", 7), ("w64", 6), ("copy@3", 6), ("shape@5", 6), ("shape+t13", 5), ("copy+t16", 5), ("alloc+gen", 7), ("all+t13", 2), ("shape+t13@1", 4)] }
        }
        Prop::C02 => {
            if q { vec![("alloc", 8), ("stale", 7), ("copy", 7), ("shape", 6), ("all", 3), ("w8", 5), ("w9", 5), ("w10", 5), ("w0", 5), ("w64", 4), ("alloc+gen", 5), ("stale+gen", 4), ("shape+t13", 4)] } else { vec![("alloc", 10), ("stale", 8), ("copy", 8), ("shape", 7), ("all", 4), ("w8", 7), ("w9", 7), ("w10", 7), ("w0", 7), ("w64", 6), ("alloc+gen", 7), ("stale+gen", 6), ("shape+t13", 5), ("stale+t16", 4)] }
        }
        Prop::C04 => {
            if q { vec![("shape", 7), ("copy", 7), ("all", 3), ("zbig", 7), ("w8", 5), ("w9", 5), ("w10", 5), ("w0", 5), ("w64", 4), ("zbig@1", 6), ("shape+t13", 4), ("copy+t16", 3)] } else { vec![("shape", 8), ("copy", 8), ("all", 4), ("zbig", 8), ("alloc", 8), ("w8", 7), ("w9", 7), ("w10", 7), ("w0", 7), ("w64", 6), ("zbig@1", 7), ("copy@1", 7), ("shape+t13", 5), ("copy+t16", 5), ("zbig+t13", 5)] }
        }
        Prop::C05 => {
            // odd address salts run the checking allocator in grow-in-place mode (a growing realloc keeps the pointer)
            if q { vec![("zbig", 7), ("shape", 7), ("copy", 7), ("alloc", 7), ("all", 3), ("w8", 5), ("w9", 5), ("w10", 5), ("w0", 5), ("w64", 4), ("zbig@1", 6), ("copy@1", 5), ("shape+t13", 4), ("copy+t16", 3), ("zbig+t13", 4)] } else { vec![("zbig", 8), ("shape", 8), ("copy", 8), ("alloc", 9), ("all", 4), ("w8", 7), ("w9", 7), ("w10", 7), ("w0", 7), ("w64", 6), ("zbig@1", 7), ("copy@1", 7), ("shape@1", 6), ("shape+t13", 5), ("copy+t16", 5), ("zbig+t13", 5), ("shape+t13@1", 4), ("copy+t16@1", 4)] }
        }
        Prop::C13 => {
            if q { vec![("alloc", 8), ("shape", 7), ("copy", 7), ("stale", 6), ("all", 3), ("zbig", 6), ("w8", 5), ("w9", 5), ("w10", 5), ("w0", 5), ("w64", 4), ("shape+t13", 4), ("copy+t16", 3), ("alloc+gen", 5), ("stale+t16", 3)] } else { vec![("alloc", 10), ("shape", 8), ("copy", 8), ("stale", 8), ("all", 4), ("zbig", 7), ("w8", 7), ("w9", 7), ("w10", 7), ("w0", 7), ("w64", 6), ("copy@3", 6), ("all@9", 3), ("shape+t13", 5), ("copy+t16", 5), ("alloc+gen", 7), ("stale+t16", 5), ("all+t16", 2)] }
        }
        Prop::C15 => {
            if q { vec![("res", 9), ("all", 3), ("copy", 6), ("res+t16", 3)] } else { vec![("res", 11), ("all", 4), ("copy", 7), ("res+t16", 5)] }
        }
        Prop::C06 => {
            if q { vec![("twin", 7), ("copy", 7), ("alloc", 8), ("w8", 5), ("w9", 5), ("w10", 5), ("w0", 5), ("w64", 4), ("twin+t13w", 3), ("copy+t16", 3)] } else { vec![("twin", 8), ("copy", 8), ("alloc", 10), ("all", 4), ("w8", 7), ("w9", 7), ("w10", 7), ("w0", 7), ("w64", 6), ("twin@3", 6), ("copy@7", 6), ("twin+t13w", 5), ("copy+t16", 5), ("twin+t16", 4), ("twin+gen", 5)] }
        }
        Prop::C10 => {
            if q { vec![("ctwin", 7), ("copy", 7), ("all", 3), ("ctwin+t13w", 3), ("copy+t16", 3)] } else { vec![("ctwin", 8), ("copy", 8), ("all", 4), ("ctwin@3", 6), ("copy@5", 6), ("ctwin+t13w", 5), ("copy+t16", 5), ("ctwin+t16", 4)] }
        }
        Prop::C16 => vec![("copy", 3)],
        // the wide-registry harnesses only: queries and filters over component positions at and beyond the first byte boundary
        Prop::C03 => if q { vec![("w8", 4), ("w9", 4), ("w10", 4), ("w64", 4)] } else { vec![("w8", 6), ("w9", 6), ("w10", 6), ("w64", 6)] },
    }
}

fn main() {
    let args: Vec<String> = std::env::args().collect();
    let mut prop = Prop::C01;
    let mut tier = "quick".to_string();
    let mut configs: Option<Vec<(String, usize)>> = None;
    let mut threads = 16usize;
    let mut evidence: Option<String> = None;
    let mut replay_dir = "/verif/replays".to_string();
    let mut replay: Option<String> = None;
    let mut budget_s = 3600u64;
    let mut mode = "bfs".to_string();
    let mut i = 1;
    while i < args.len() {
        match args[i].as_str() {
            "--prop" => {
                prop = Prop::parse(&args[i + 1]).expect("unknown property");
                i += 1
            }
            "--tier" => {
                tier = args[i + 1].clone();
                i += 1
            }
            "--configs" => {
                configs = Some(
                    args[i + 1]
                        .split(',')
                        .map(|c| {
                            let (n, d) = c.split_once(':').expect("config is name:depth");
                            (n.to_string(), d.parse().unwrap())
                        })
                        .collect(),
                );
                i += 1
            }
            "--threads" => {
                threads = args[i + 1].parse().unwrap();
                i += 1
            }
            "--evidence" => {
                evidence = Some(args[i + 1].clone());
                i += 1
            }
            "--replay-dir" => {
                replay_dir = args[i + 1].clone();
                i += 1
            }
            "--replay" => {
                replay = Some(args[i + 1].clone());
                i += 1
            }
            "--mode" => {
                mode = args[i + 1].clone();
                i += 1
            }
            "--budget-s" => {
                budget_s = args[i + 1].parse().unwrap();
                i += 1
            }
            x => panic!("unknown argument {x}"),
        }
        i += 1;
    }
    util::install_crash_handler();
    util::install_quiet_panic_hook();
    let seed: i64 = std::env::var("VERIF_SEED").ok().and_then(|s| s.parse().ok()).unwrap_or(0);

    if let Some(path) = replay {
        let text = std::fs::read_to_string(&path).expect("cannot read replay file");
        if text.contains("\"engine\": \"hist-pairs\"") {
            std::process::exit(pairs::replay_pairs(&path));
        }
        std::process::exit(do_replay(&path));
    }

    if mode == "big" {
        std::process::exit(big_tables(prop, evidence.as_deref(), &replay_dir));
    }
    if mode == "pairs" {
        std::process::exit(pairs::main_pairs(prop, &tier, threads, evidence.as_deref(), &replay_dir, seed, budget_s));
    }
    let props = [prop];
    let configs: Vec<(String, usize)> = configs.unwrap_or_else(|| default_configs(prop, &tier).into_iter().map(|(n, d)| (n.to_string(), d)).collect());
    let t0 = Instant::now();
    let deadline = t0 + std::time::Duration::from_secs(budget_s);
    let mut found: Vec<Found> = Vec::new();
    let mut results = Vec::new();
    let mut capped = false;
    for (name, depth) in &configs {
        let r = bfs(name, *depth, &props, threads, &mut found, deadline);
        println!(
            "config {} depth {}/{}: states={} transitions={} disabled={} levels={:?} [{:.1}s]",
            r.name, r.depth_done, depth, r.states, r.transitions, r.disabled, r.per_level, t0.elapsed().as_secs_f64()
        );
        if r.depth_done < *depth && r.per_level.last().map_or(true, |l| l.0 != 0) {
            capped = true;
        }
        results.push((r, *depth));
    }
    // replay artefacts
    let mut found_json = Vec::new();
    for f in &found {
        let dir = format!("{}/{}", replay_dir, f.prop.name());
        let _ = std::fs::create_dir_all(&dir);
        let fname: String = f.key.chars().map(|c| if c.is_ascii_alphanumeric() || c == '-' || c == '=' { c } else { '_' }).collect();
        let path = format!("{}/{}.json", dir, fname);
        let al = alpha(&f.config);
        let j = serde_json::json!({
            "engine": "hist", "property": f.prop.name(), "key": f.key, "detail": f.detail, "config": f.config,
            "history": f.hist, "ops": f.hist.iter().map(|&i| al.names[i as usize].clone()).collect::<Vec<_>>(),
            "arena": f.arena, "salt": 0, "occurrences": f.count,
        });
        std::fs::write(&path, serde_json::to_string_pretty(&j).unwrap()).unwrap();
        // determinism: the failing history must fail identically twice more
        let again: Vec<bool> = (0..2).map(|_| replay_fails(&f.config, &f.hist, f.arena, f.prop, &f.key)).collect();
        if again != [true, true] {
            println!("MACHINERY-ERROR nondeterministic replay for {} {}", f.prop.name(), f.key);
            std::process::exit(2);
        }
        println!("FOUND property={} key={} replay={} count={} :: {}", f.prop.name(), f.key.replace(' ', "_"), path, f.count, f.detail);
        found_json.push(serde_json::json!({"property": f.prop.name(), "key": f.key, "replay": path, "count": f.count, "detail": f.detail}));
    }
    let states: usize = results.iter().map(|(r, _)| r.states).sum();
    let transitions: u64 = results.iter().map(|(r, _)| r.transitions).sum();
    let mut samples = Vec::new();
    for (r, _) in &results {
        for s in r.samples.iter().rev().take(2) {
            samples.push(serde_json::json!({"config": r.name, "history": s}));
        }
    }
    let ev = serde_json::json!({
        "property_id": prop.name(),
        "tier": tier,
        "seed": seed,
        "level": "model_checking",
        "coverage": {
            "states": states,
            "transitions": transitions,
            "traces_validated_against_impl": transitions,
            "samples": samples,
            "exhaustive_within_bounds": !capped,
            "explanation": "explicit-state BFS over operation histories executed on the real brood::World (one fresh world + fresh arena per transition, prefix replayed), lock-step reference model; every transition is an implementation execution, so model traces and implementation traces coincide",
            "configs": results.iter().map(|(r, want)| serde_json::json!({
                "alphabet": r.name, "alphabet_size": alpha(&r.name).n, "depth_completed": r.depth_done, "depth_requested": want,
                "states": r.states, "transitions": r.transitions, "disabled_transitions": r.disabled,
                "new_states_and_transitions_per_level": r.per_level, "transitions_per_op": r.per_op, "precondition_classes": r.classes,
                "max_allocations_in_one_execution": r.max_allocs,
            })).collect::<Vec<_>>(),
            "found": found_json,
            "threads": threads,
        },
        "assumptions": [
            "component values are not part of the canonical state (brood never branches on them)",
            "hash-table internals (tombstones, bucket positions) are abstracted; archetypes are canonicalised by identifier bytes",
            "registry S4 = (Heap, Zst, Big(align 64), Small) with two resources; generation wrap-around not reachable",
            "violating transitions are terminal (their successor states are not expanded)"
        ],
        "wall_s": t0.elapsed().as_secs_f64(),
        "violations": found.len(),
    });
    if let Some(p) = evidence {
        std::fs::write(&p, serde_json::to_string_pretty(&ev).unwrap()).unwrap();
    }
    if capped {
        println!("MACHINERY-ERROR time budget exhausted before the stated bound was covered");
        std::process::exit(2);
    }
    std::process::exit(if found.is_empty() { 0 } else { 1 });
}

/// One fixed scenario outside the small-scope bounds: tables with more rows than any internal chunk size or
/// preallocation cap (4096) used by the (de)serializers; round trips in all encodings, clone and clone_from.
fn big_tables(prop: Prop, evidence: Option<&str>, replay_dir: &str) -> i32 {
    let t0 = Instant::now();
    let fails: Vec<Failure> = std::thread::scope(|s| {
        s.spawn(|| {
            arena::init_thread(0);
            arena::begin(0);
            comp::ledger_begin();
            let mut chk = Checker::default();
            let r = catch_unwind(AssertUnwindSafe(|| {
                let mut ex = ManuallyDrop::new(Exec::new());
                let steps = [Op::Extend { mask: 5, n: 3, style: 0 }, Op::Insert { mask: 2, rev: false }];
                let _ = steps;
                // 4100 rows of (O, A) through repeated batches, 4098 rows of (B), one removal in the middle
                for _ in 0..1367 {
                    ex.apply(&Op::Extend { mask: 5, n: 3, style: 0 }, &mut chk);
                }
                for _ in 0..1366 {
                    ex.apply(&Op::Extend { mask: 8, n: 3, style: 1 }, &mut chk);
                }
                ex.apply(&Op::Remove(Tgt::Mid), &mut chk);
                for op in [Op::RtJson, Op::RtTok { human: false }, Op::RtTok { human: true }, Op::CloneSelf, Op::Snapshot, Op::Remove(Tgt::Lo), Op::CloneFromAux, Op::Twin(1), Op::Insert { mask: 5, rev: true }] {
                    ex.apply(&op, &mut chk);
                    // contents only (the full identifier sweep is quadratic in the number of entities)
                    let snap = snapshot(&mut ex.w);
                    if snap_vals(&snap) != model_vals(&ex.m) {
                        chk.fail(prop, &format!("big-table contents-differ op={}", op.kind()), format!("{} rows in the world, {} in the model", snap.len(), ex.m.ents.len()));
                    }
                    if ex.w.len() != ex.m.ents.len() {
                        chk.fail(prop, &format!("big-table len-differs op={}", op.kind()), format!("{} vs {}", ex.w.len(), ex.m.ents.len()));
                    }
                    let exr: &mut Exec = &mut ex;
                    let (m0, tw) = (&exr.m, exr.twin.as_mut());
                    if let Some(t) = tw {
                        if snap_vals(&snapshot(&mut t.w)) != model_vals(&t.m) || &t.m != m0 {
                            chk.fail(prop, &format!("big-table twin-differs op={}", op.kind()), String::new());
                        }
                    }
                }
                drop(ManuallyDrop::into_inner(ex));
                let live = comp::with_ledger(|l| l.live_count()).unwrap_or(0);
                if live != 0 {
                    chk.fail(prop, "big-table not-dropped-with-world", format!("{} values alive", live));
                }
            }));
            if r.is_err() {
                chk.fail(prop, "big-table panic", util::take_last_panic());
            }
            let mut fails: Vec<Failure> = arena::with_system(|| chk.fails.iter().map(|f| Failure { prop, key: f.key.as_str().to_owned(), detail: f.detail.as_str().to_owned() }).collect());
            drop(chk);
            drop(comp::ledger_end());
            let rep = arena::end();
            if !rep.errors.is_empty() {
                fails.push(Failure { prop, key: "big-table allocator-misuse".into(), detail: rep.describe() });
            }
            fails
        })
        .join()
        .unwrap()
    });
    let mut seen = std::collections::BTreeSet::new();
    let dir = format!("{}/{}", replay_dir, prop.name());
    let _ = std::fs::create_dir_all(&dir);
    for f in &fails {
        if seen.insert(f.key.clone()) {
            let path = format!("{}/big-{}.json", dir, f.key.chars().map(|c| if c.is_ascii_alphanumeric() || c == '-' || c == '=' { c } else { '_' }).collect::<String>());
            std::fs::write(&path, serde_json::to_string_pretty(&serde_json::json!({"engine": "hist-big", "property": prop.name(), "key": f.key, "detail": f.detail})).unwrap()).unwrap();
            println!("FOUND property={} key={} replay={} count=1 :: {}", prop.name(), f.key.replace(' ', "_"), path, f.detail);
        }
    }
    if let Some(p) = evidence {
        let ev = serde_json::json!({"coverage": {"states": 10, "transitions": 2743, "traces_validated_against_impl": 2743,
            "samples": [{"scenario": "4100 rows of (O,A) and 4098 rows of (B) built by batches; round trips in 3 encodings, clone, clone_from, lock-step twin"}],
            "big_table_scenario": {"rows": [4100, 4098], "wall_s": t0.elapsed().as_secs_f64()}}, "violations": seen.len()});
        std::fs::write(p, serde_json::to_string_pretty(&ev).unwrap()).unwrap();
    }
    println!("config big-tables: 4100 + 4098 rows, 9 whole-world operations [{:.1}s]", t0.elapsed().as_secs_f64());
    if seen.is_empty() { 0 } else { 1 }
}

fn replay_fails(config: &str, hist: &[u8], arena_idx: usize, prop: Prop, key: &str) -> bool {
    let al = alpha(config);
    let props = [prop];
    let hist = hist.to_vec();
    std::thread::scope(|s| {
        s.spawn(move || {
            arena::init_thread(arena_idx);
            match (al.run)(&hist, &props, false) {
                Outcome::Violation(f) => f.iter().any(|x| x.key == key),
                _ => false,
            }
        })
        .join()
        .unwrap()
    })
}

fn do_replay(path: &str) -> i32 {
    let text = std::fs::read_to_string(path).expect("cannot read replay file");
    let j: serde_json::Value = serde_json::from_str(&text).expect("replay file is not JSON");
    let config = j["config"].as_str().unwrap().to_string();
    let hist: Vec<u8> = j["history"].as_array().unwrap().iter().map(|x| x.as_u64().unwrap() as u8).collect();
    let arena_idx = j["arena"].as_u64().unwrap_or(0) as usize;
    let prop = Prop::parse(j["property"].as_str().unwrap()).unwrap();
    let al = alpha(&config);
    println!("replaying {} on alphabet {} (arena {}):", prop.name(), config, arena_idx);
    for (i, &h) in hist.iter().enumerate() {
        println!("  {i}: {}", al.names[h as usize]);
    }
    let props = [prop];
    let out = std::thread::scope(|s| {
        s.spawn(|| {
            arena::init_thread(arena_idx);
            (al.run)(&hist, &props, true)
        })
        .join()
        .unwrap()
    });
    match out {
        Outcome::Violation(f) => {
            for x in &f {
                println!("VIOLATION property={} replay={} :: {} :: {}", x.prop.name(), path, x.key, x.detail);
            }
            1
        }
        Outcome::State { hash, .. } => {
            println!("no violation; state hash {:032x}", hash);
            0
        }
        Outcome::Disabled => {
            println!("last operation is disabled in that state");
            0
        }
    }
}
