//! The degenerate registry: `Registry!()` (no components at all).  Identifiers of zero bytes, one possible table
//! (the table of component-less entities), no columns.  Same history engine and oracles as the other harnesses,
//! reduced to what exists here: which identifiers are live, the structure audit, memory, round trips.

use brood::{entity, query::{result, Views}, Query, Registry, World};
use mccore::comp;
use mccore::s4::{audit_n, canon_world, idp, mkid, Checker, Failure, Id, Model, Prop};
use mccore::{arena, util};
use std::collections::BTreeMap;

pub type Reg0 = Registry!();
pub type W0 = World<Reg0>;

#[derive(Clone, Copy, Debug, PartialEq, Eq)]
pub enum Op0 {
    Insert,
    ExtendNone,
    RemoveLo,
    RemoveHi,
    RemoveStale,
    Clear,
    Reserve,
    Shrink,
    CloneSelf,
    Snapshot,
    CloneFromAux,
    RtJson,
    RtTok(bool),
}

impl Op0 {
    pub fn kind(&self) -> &'static str {
        match self {
            Op0::Insert => "insert",
            Op0::ExtendNone => "extend",
            Op0::RemoveLo | Op0::RemoveHi | Op0::RemoveStale => "remove",
            Op0::Clear => "clear",
            Op0::Reserve => "reserve",
            Op0::Shrink => "shrink_to_fit",
            Op0::CloneSelf => "clone",
            Op0::Snapshot => "snapshot",
            Op0::CloneFromAux => "clone_from",
            Op0::RtJson => "rt_json",
            Op0::RtTok(_) => "rt_tok",
        }
    }
}

pub fn alphabet0() -> Vec<Op0> {
    vec![Op0::Insert, Op0::ExtendNone, Op0::RemoveLo, Op0::RemoveHi, Op0::RemoveStale, Op0::Clear, Op0::Reserve, Op0::Shrink, Op0::CloneSelf, Op0::Snapshot, Op0::CloneFromAux, Op0::RtJson, Op0::RtTok(false), Op0::RtTok(true)]
}

struct Exec0 {
    w: W0,
    aux: Option<W0>,
    m: Model,
    maux: Option<Model>,
}

fn snapshot(w: &mut W0) -> Vec<Id> {
    let mut v: Vec<Id> = w.query(Query::<Views!(entity::Identifier)>::new()).iter.map(|result!(id)| idp(id)).collect();
    v.sort();
    v
}

fn rt_tok0(w: &W0, human: bool, seq: bool) -> Result<W0, String> {
    use serde::{Deserialize, Serialize};
    let ser = if seq {
        serde_assert::Serializer::builder().is_human_readable(human).serialize_struct_as(serde_assert::ser::SerializeStructAs::Seq).build()
    } else {
        serde_assert::Serializer::builder().is_human_readable(human).build()
    };
    let t = w.serialize(&ser).map_err(|e| format!("serialize failed: {e:?}"))?;
    let shown = format!("{:?}", t);
    let mut de = serde_assert::Deserializer::builder().tokens(t).is_human_readable(human).build();
    W0::deserialize(&mut de).map_err(|e| format!("deserialize of own output failed: {e:?}; tokens={shown}"))
}

impl Exec0 {
    fn apply(&mut self, op: &Op0, chk: &mut Checker) -> bool {
        let live: Vec<Id> = self.m.ents.keys().copied().collect();
        match *op {
            Op0::Insert => {
                let id = idp(self.w.insert(entity!()));
                if self.m.issued.contains(&id) {
                    chk.fail(Prop::C02, "reissued-identifier op=insert", format!("{:?}", id));
                }
                self.m.issued.push(id);
                self.m.ents.insert(id, [None; 4]);
            }
            Op0::ExtendNone => {
                let ids = self.w.extend(brood::entities!());
                if !ids.is_empty() {
                    chk.fail(Prop::C01, "extend-returned-count", format!("{} identifiers for an empty batch", ids.len()));
                }
            }
            Op0::RemoveLo => {
                let Some(id) = live.first() else { return false };
                self.w.remove(mkid(*id));
                self.m.ents.remove(id);
            }
            Op0::RemoveHi => {
                if live.len() < 2 {
                    return false;
                }
                let id = live.last().unwrap();
                self.w.remove(mkid(*id));
                self.m.ents.remove(id);
            }
            Op0::RemoveStale => {
                let dead: Vec<Id> = self.m.issued.iter().copied().filter(|i| !self.m.ents.contains_key(i)).collect();
                if dead.is_empty() {
                    return false;
                }
                for id in dead {
                    self.w.remove(mkid(id));
                }
            }
            Op0::Clear => {
                self.w.clear();
                self.m.ents.clear();
            }
            Op0::Reserve => self.w.reserve::<brood::Entity!(), _>(3),
            Op0::Shrink => self.w.shrink_to_fit(),
            Op0::CloneSelf => {
                let c = self.w.clone();
                if !(c == self.w) || !(self.w == c) {
                    chk.fail(Prop::C10, "copy-not-equal op=clone", String::new());
                }
                self.w = c;
            }
            Op0::Snapshot => {
                self.aux = Some(self.w.clone());
                self.maux = Some(self.m.clone());
            }
            Op0::CloneFromAux => {
                let Some(aux) = self.aux.as_ref() else { return false };
                self.w.clone_from(aux);
                self.m = self.maux.clone().unwrap();
            }
            Op0::RtJson => match serde_json::to_string(&self.w).map_err(|e| e.to_string()).and_then(|s| serde_json::from_str::<W0>(&s).map_err(|e| format!("deserialize of own output failed: {e}; text={s}"))) {
                Ok(w2) => {
                    if !(self.w == w2) {
                        chk.fail(Prop::C06, "roundtrip-not-equal enc=json", String::new());
                    }
                    self.w = w2;
                }
                Err(e) => {
                    chk.fail(Prop::C06, "roundtrip-failed enc=json", e.clone());
                    chk.fail(Prop::C01, "roundtrip-failed enc=json", e);
                }
            },
            Op0::RtTok(human) => {
                for seq in [true, false] {
                    match rt_tok0(&self.w, human, seq) {
                        Ok(w2) => {
                            if !(self.w == w2) {
                                chk.fail(Prop::C06, "roundtrip-not-equal enc=tok", String::new());
                            }
                            if !seq {
                                self.w = w2;
                            }
                        }
                        Err(e) => {
                            let k = format!("roundtrip-failed enc=tok-{}{}", if human { "hr" } else { "compact" }, if seq { "-structs-as-sequences" } else { "" });
                            chk.fail(Prop::C06, &k, e.clone());
                            chk.fail(Prop::C01, &k, e);
                        }
                    }
                }
            }
        }
        true
    }

    fn check(&mut self, chk: &mut Checker, k: &str) {
        for (which, w, m) in [("world", Some(&mut self.w), Some(&self.m)), ("aux", self.aux.as_mut(), self.maux.as_ref())] {
            let (Some(w), Some(m)) = (w, m) else { continue };
            let got = snapshot(w);
            let want: Vec<Id> = m.ents.keys().copied().collect();
            if got != want {
                chk.fail(if which == "aux" { Prop::C10 } else { Prop::C01 }, &format!("contents-differ op={} world={}", k, which), format!("world {:?} model {:?}", got, want));
            }
            if w.len() != want.len() || w.is_empty() != want.is_empty() {
                chk.fail(Prop::C01, &format!("len-differs op={}", k), format!("len {} is_empty {} model {}", w.len(), w.is_empty(), want.len()));
            }
            for &id in &m.issued {
                let live = m.ents.contains_key(&id);
                if w.contains(mkid(id)) != live || w.entry(mkid(id)).is_some() != live {
                    chk.fail(Prop::C02, &format!("identifier-resolution-wrong live={} op={}", live, k), format!("{:?}", id));
                }
            }
            audit_n(&w.verif_dump(), m, chk, k, which, 0);
        }
    }

    fn canon(&self) -> Vec<u8> {
        let mut out = Vec::new();
        for w in [Some(&self.w), self.aux.as_ref()] {
            match w {
                None => out.push(0xee),
                Some(w) => canon_world(&w.verif_dump(), &mut out, true),
            }
        }
        out
    }
}

pub struct Outcome0 {
    pub disabled: bool,
    pub hash: u128,
    pub fails: Vec<Failure>,
    pub allocs: u64,
}

pub fn run_one(ops: &[Op0], hist: &[u8], props: &[Prop]) -> Outcome0 {
    arena::begin(0);
    comp::ledger_begin();
    let mut chk = Checker::default();
    let mut disabled = false;
    let mut hash = 0u128;
    let lastk = hist.last().map_or("init", |&o| ops[o as usize].kind());
    let r = std::panic::catch_unwind(std::panic::AssertUnwindSafe(|| {
        let mut ex = std::mem::ManuallyDrop::new(Exec0 { w: W0::new(), aux: None, m: Model { ents: BTreeMap::new(), issued: vec![], res: (0, 0) }, maux: None });
        for (i, &oi) in hist.iter().enumerate() {
            if !ex.apply(&ops[oi as usize], &mut chk) {
                if i + 1 != hist.len() {
                    panic!("machinery: disabled op inside a representative history");
                }
                disabled = true;
                break;
            }
        }
        if !disabled {
            ex.check(&mut chk, lastk);
            hash = util::hash128(&ex.canon());
        }
        let Exec0 { w, aux, m, maux } = std::mem::ManuallyDrop::into_inner(ex);
        drop(aux);
        drop(w);
        drop((m, maux));
    }));
    if r.is_err() {
        let msg = util::take_last_panic();
        for &p in props {
            chk.fail(p, &format!("panic op={}", lastk), msg.clone());
        }
    }
    let mut fails: Vec<Failure> = arena::with_system(|| chk.fails.iter().map(|f| Failure { prop: f.prop, key: f.key.as_str().to_owned(), detail: f.detail.as_str().to_owned() }).collect());
    drop(chk);
    drop(comp::ledger_end());
    let rep = arena::end();
    if !disabled {
        let panicked = fails.iter().any(|f| f.key.starts_with("panic "));
        if !rep.errors.is_empty() {
            fails.push(Failure { prop: Prop::C05, key: format!("allocator-misuse after={}", lastk), detail: rep.describe() });
        } else if rep.leaked_blocks > 0 && !panicked {
            fails.push(Failure { prop: Prop::C05, key: format!("memory-not-returned after={}", lastk), detail: rep.describe() });
        }
    }
    fails.retain(|f| props.contains(&f.prop));
    Outcome0 { disabled, hash, fails, allocs: rep.total_allocs }
}
