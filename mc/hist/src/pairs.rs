//! Pairwise engines over the reachable state set: C10 (`clone` / `clone_from` for every ordered pair
//! of reachable source and destination states, followed by every single operation on either side)
//! and C16 (equality over every ordered pair of reachable states and every single perturbation).

use crate::{alphabet, bfs, Found};
use mccore::comp::{self, Comp};
use mccore::s4::*;
use mccore::{arena, util};
use brood::{entity, query::{result, Views}, Query};
use std::collections::{BTreeMap, BTreeSet};
use std::mem::ManuallyDrop;
use std::panic::{catch_unwind, AssertUnwindSafe};
use std::time::Instant;

#[derive(Clone, Debug)]
pub struct StateRef {
    pub cfg: usize,
    pub hist: Vec<u8>,
}

fn build(ops: &[Op], hist: &[u8]) -> Exec {
    let mut ex = Exec::new();
    let mut chk = Checker::default();
    for &oi in hist {
        if ex.apply(&ops[oi as usize], &mut chk) == Step::Disabled {
            panic!("machinery: disabled op while rebuilding a state");
        }
    }
    ex
}

/// Gives every component value and resource a value that depends only on (identifier, component), so that
/// two worlds with the same contents built by different histories hold equal values.
fn normalize(ex: &mut Exec) {
    for (w, m) in [(Some(&mut ex.w), Some(&mut ex.m)), (ex.aux.as_mut(), ex.maux.as_mut())] {
        let (Some(w), Some(m)) = (w, m) else { continue };
        for result!(id, a, o, b) in w.query(Query::<Views!(entity::Identifier, Option<&mut A>, Option<&mut O>, Option<&mut B>)>::new()).iter {
            let i = idp(id);
            let v = |c: u32| 1000 + (i.0 as u32) * 64 + (i.1 as u32) * 4 + c;
            let row = m.ents.get_mut(&i).expect("normalize: unknown entity");
            if let Some(a) = a {
                a.set(v(0));
                row[0] = Some(v(0));
            }
            if let Some(o) = o {
                o.set(v(2));
                row[2] = Some(v(2));
            }
            if let Some(b) = b {
                b.set(v(3));
                row[3] = Some(v(3));
            }
        }
        w.get_mut::<R0, _>().set(7);
        w.get_mut::<R1, _>().set(8);
        m.res = (7, 8);
    }
}

/// Second normalisation: every value becomes a function of (table, row, component), so that two worlds whose
/// tables have the same row counts hold identical columns and differ only in WHICH identifier sits in which
/// row (and in the allocator) — equality must then be decided by the identifiers alone.
fn normalize_by_row(ex: &mut Exec) {
    for (w, m) in [(Some(&mut ex.w), Some(&mut ex.m)), (ex.aux.as_mut(), ex.maux.as_mut())] {
        let (Some(w), Some(m)) = (w, m) else { continue };
        let mut rows: BTreeMap<u8, u32> = BTreeMap::new();
        for result!(id, a, z, o, b) in w.query(Query::<Views!(entity::Identifier, Option<&mut A>, Option<&Z>, Option<&mut O>, Option<&mut B>)>::new()).iter {
            let i = idp(id);
            let mask = (a.is_some() as u8) | (z.is_some() as u8) << 1 | (o.is_some() as u8) << 2 | (b.is_some() as u8) << 3;
            let r = rows.entry(mask).or_default();
            let v = |c: u32| 50_000 + (mask as u32) * 1024 + *r * 4 + c;
            let row = m.ents.get_mut(&i).expect("normalize: unknown entity");
            if let Some(a) = a {
                a.set(v(0));
                row[0] = Some(v(0));
            }
            if let Some(o) = o {
                o.set(v(2));
                row[2] = Some(v(2));
            }
            if let Some(b) = b {
                b.set(v(3));
                row[3] = Some(v(3));
            }
            *r += 1;
        }
    }
}

#[derive(Clone, Copy, Debug, PartialEq, Eq)]
pub enum Job {
    /// dst = src.clone()
    Clone { src: usize, follow: Option<(bool, u8)> },
    /// dst.clone_from(&src)
    CloneFrom { src: usize, dst: usize, follow: Option<(bool, u8)> },
    /// a == b (both directions), eq => same contents
    Eq { a: usize, b: usize },
    /// a vs a perturbed by `p`
    Perturb { a: usize, p: u8 },
    /// a clone and a serde round trip (0 JSON, 1 compact tokens, 2 human-readable tokens, 3 clone) compare equal to a
    Copy { a: usize, enc: u8 },
}

pub struct PairOut {
    pub fails: Vec<Failure>,
    pub disabled: bool,
    pub eq_true: bool,
    pub same_content: bool,
}

fn addr_overlap(a: &W, b: &W) -> Option<usize> {
    let da = a.verif_dump();
    let db = b.verif_dump();
    let mut sa = BTreeSet::new();
    for d in [&da] {
        for x in &d.archetypes {
            if x.id_cap > 0 { sa.insert(x.id_addr); }
            if x.entity_col.1 > 0 { sa.insert(x.entity_col.0); }
            for c in &x.columns { if c.1 > 0 && c.1 < (1 << 40) { sa.insert(c.0); } }
        }
    }
    for x in &db.archetypes {
        if x.id_cap > 0 && sa.contains(&x.id_addr) { return Some(x.id_addr); }
        if x.entity_col.1 > 0 && sa.contains(&x.entity_col.0) { return Some(x.entity_col.0); }
        for c in &x.columns { if c.1 > 0 && c.1 < (1 << 40) && sa.contains(&c.0) { return Some(c.0); } }
    }
    None
}

fn check_two(s: &mut Exec, d: &mut Exec, chk: &mut Checker, k: &str, prop: Prop) {
    let mut owned = BTreeSet::new();
    let mut z = 0i64;
    let mut sub = Checker::default();
    s.check_side(&mut sub, k, &mut owned, &mut z);
    for f in sub.fails.drain(..) {
        chk.fail(prop, &format!("source-side {} ({})", k, f.key), f.detail);
    }
    d.check_side(&mut sub, k, &mut owned, &mut z);
    for f in sub.fails.drain(..) {
        chk.fail(prop, &format!("destination-side {} ({})", k, f.key), f.detail);
    }
    if let Some(x) = addr_overlap(&s.w, &d.w) {
        chk.fail(prop, &format!("shared-address {}", k), format!("{:#x}", x));
    }
    let live: BTreeSet<u64> = comp::with_ledger(|l| l.live_serials().into_iter().collect()).unwrap_or_default();
    if live != owned {
        chk.fail(prop, &format!("value-ownership {}", k), format!("alive-but-unowned {:?}, owned-but-dropped {:?}", live.difference(&owned).collect::<Vec<_>>(), owned.difference(&live).collect::<Vec<_>>()));
    }
    if comp::zst_live(1) != z {
        chk.fail(prop, &format!("zst-ownership {}", k), format!("{} alive, {} held", comp::zst_live(1), z));
    }
    if comp::token_errors() > 0 || arena::error_count() > 0 {
        let errs = comp::with_ledger(|l| l.errors.clone()).unwrap_or_default();
        chk.fail(prop, &format!("memory-or-drop-error {}", k), format!("{:?}; {} allocator errors", errs, arena::error_count()));
    }
}

pub fn run_job(states: &[StateRef], alphas: &[Vec<Op>], follow_ops: &[Op], job: Job, order: usize) -> PairOut {
    arena::begin(0);
    comp::ledger_begin();
    let mut chk = Checker::default();
    let mut out = PairOut { fails: vec![], disabled: false, eq_true: false, same_content: false };
    let mut jobkind = "";
    let r = catch_unwind(AssertUnwindSafe(|| {
        let st = |i: usize| -> ManuallyDrop<Exec> { ManuallyDrop::new(build(&alphas[states[i].cfg], &states[i].hist)) };
        match job {
            Job::Clone { src, follow } | Job::CloneFrom { src, follow, .. } => {
                let prop = Prop::C10;
                let mut s = st(src);
                let mut d = match job {
                    Job::CloneFrom { dst, .. } => {
                        jobkind = "clone_from";
                        let mut d = st(dst);
                        d.w.clone_from(&s.w);
                        d
                    }
                    _ => {
                        jobkind = "clone";
                        let w = s.w.clone();
                        let (_, res) = (0, s.m.res);
                        ManuallyDrop::new(Exec { w, aux: None, m: Model { ents: BTreeMap::new(), issued: vec![], res }, maux: None, class: None, twin: None, twin_kind: 0 })
                    }
                };
                d.m = s.m.clone();
                // `==` is structural (it also compares empty tables), so it is required of clone() only;
                // clone_from() keeps the destination's extra (emptied) tables and must agree in contents.
                if matches!(job, Job::Clone { .. }) && (!(d.w == s.w) || !(s.w == d.w)) {
                    chk.fail(prop, &format!("copy-not-equal {}", jobkind), format!("dst == src: {}, src == dst: {}", d.w == s.w, s.w == d.w));
                }
                check_two(&mut s, &mut d, &mut chk, jobkind, prop);
                if let Some((on_dst, oi)) = follow {
                    let op = follow_ops[oi as usize];
                    let k = format!("{} then {} on {}", jobkind, op.kind(), if on_dst { "dst" } else { "src" });
                    let mut sub = Checker::default();
                    let step = if on_dst { d.apply(&op, &mut sub) } else { s.apply(&op, &mut sub) };
                    if step == Step::Disabled {
                        out.disabled = true;
                    } else {
                        for f in sub.fails {
                            chk.fail(prop, &format!("{} ({})", k, f.key), f.detail);
                        }
                        check_two(&mut s, &mut d, &mut chk, &k, prop);
                    }
                }
                let (s, d) = (ManuallyDrop::into_inner(s), ManuallyDrop::into_inner(d));
                if order % 2 == 0 { drop(s); drop(d); } else { drop(d); drop(s); }
                let live = comp::with_ledger(|l| l.live_serials()).unwrap_or_default();
                if !live.is_empty() || comp::zst_live(1) != 0 {
                    chk.fail(prop, &format!("not-dropped-with-worlds {}", jobkind), format!("serials {:?}, {} Z", live, comp::zst_live(1)));
                }
                if comp::token_errors() > 0 {
                    let errs = comp::with_ledger(|l| l.errors.clone()).unwrap_or_default();
                    chk.fail(prop, &format!("drop-error-at-world-drop {}", jobkind), format!("{:?}", errs));
                }
            }
            Job::Eq { a, b } => {
                jobkind = "eq";
                let prop = Prop::C16;
                let mut x = st(a);
                let mut y = st(b);
                normalize(&mut x);
                normalize(&mut y);
                if !(x.w == x.w) {
                    chk.fail(prop, "not-reflexive", format!("state {:?}", states[a].hist));
                }
                let (xy, yx) = (x.w == y.w, y.w == x.w);
                if xy != yx {
                    chk.fail(prop, "not-symmetric", format!("a == b: {}, b == a: {}", xy, yx));
                }
                let same = snap_vals(&snapshot(&mut x.w)) == snap_vals(&snapshot(&mut y.w)) && read_res(&x.w).0 .0 == read_res(&y.w).0 .0 && read_res(&x.w).1 .0 == read_res(&y.w).1 .0;
                out.same_content = same;
                out.eq_true = xy;
                if (xy || yx) && !same {
                    chk.fail(prop, "equal-but-different-contents", format!("a == b: {}, b == a: {}", xy, yx));
                }
                // the same pair with values that depend on (table, row) only: identical columns wherever the
                // row counts agree, so only the identifiers can tell the two worlds apart
                normalize_by_row(&mut x);
                normalize_by_row(&mut y);
                let (xy, yx) = (x.w == y.w, y.w == x.w);
                if xy != yx {
                    chk.fail(prop, "not-symmetric (values by row)", format!("a == b: {}, b == a: {}", xy, yx));
                }
                let same = snap_vals(&snapshot(&mut x.w)) == snap_vals(&snapshot(&mut y.w));
                out.same_content |= same;
                out.eq_true |= xy;
                if (xy || yx) && !same {
                    chk.fail(prop, "equal-but-different-contents (values by row)", format!("a == b: {}, b == a: {}", xy, yx));
                }
                drop(ManuallyDrop::into_inner(x));
                drop(ManuallyDrop::into_inner(y));
            }
            Job::Copy { a, enc } => {
                jobkind = "copy";
                let prop = Prop::C16;
                let x = st(a);
                let made = match enc {
                    0 => rt_json(&x.w),
                    1 => rt_tok(&x.w, false),
                    2 => rt_tok(&x.w, true),
                    _ => Ok(x.w.clone()),
                };
                let what = ["json round trip", "compact round trip", "human-readable round trip", "clone"][enc as usize];
                match made {
                    Err(e) => chk.fail(prop, &format!("copy-could-not-be-made {}", what), e),
                    Ok(y) => {
                        if !(x.w == y) || !(y == x.w) {
                            chk.fail(prop, &format!("copy-not-equal {}", what), format!("a == copy: {}, copy == a: {}", x.w == y, y == x.w));
                        }
                    }
                }
                drop(ManuallyDrop::into_inner(x));
            }
            Job::Perturb { a, p } => {
                jobkind = "perturb";
                let prop = Prop::C16;
                let mut x = st(a);
                let mut y = st(a);
                normalize(&mut x);
                normalize(&mut y);
                if !(x.w == y.w) || !(y.w == x.w) {
                    // two builds of one history may differ only through address-dependent order (clear)
                    out.disabled = true;
                } else {
                    let live = y.m.live_by_slot();
                    let pk: &str;
                    let applied = match p {
                        0..=3 => {
                            // change one component value of the first entity that has component p
                            pk = "component-value";
                            let c = p as usize;
                            let tgt = live.iter().find(|i| y.m.ents[i][c].is_some() && c != 1).copied();
                            match tgt {
                                None => false,
                                Some(id) => {
                                    let mut e = y.w.entry(mkid(id)).unwrap();
                                    match c {
                                        0 => { let result!(v) = e.query(Query::<Views!(&mut A)>::new()).unwrap(); v.set(999_999) }
                                        2 => { let result!(v) = e.query(Query::<Views!(&mut O)>::new()).unwrap(); v.set(999_999) }
                                        _ => { let result!(v) = e.query(Query::<Views!(&mut B)>::new()).unwrap(); v.set(999_999) }
                                    }
                                    true
                                }
                            }
                        }
                        4 => { pk = "resource-0"; y.w.get_mut::<R0, _>().set(999_999); true }
                        5 => { pk = "resource-1"; y.w.get_mut::<R1, _>().set(999_999); true }
                        6 => { pk = "remove-entity"; match live.first() { Some(id) => { y.w.remove(mkid(*id)); true } None => false } }
                        7 => { pk = "remove-last-entity"; match live.last() { Some(id) if live.len() > 1 => { y.w.remove(mkid(*id)); true } _ => false } }
                        8 => { pk = "insert-entity"; y.w.insert(brood::entity!(B::make(5))); true }
                        9 => { pk = "insert-empty-entity"; y.w.insert(brood::entity!()); true }
                        10 => { pk = "add-component"; match live.iter().find(|i| y.m.ents[i][1].is_none()) { Some(id) => { y.w.entry(mkid(*id)).unwrap().add(Z::make(0)); true } None => false } }
                        _ => { pk = "remove-component"; match live.iter().find(|i| y.m.ents[i][0].is_some()) { Some(id) => { y.w.entry(mkid(*id)).unwrap().remove::<A, _>(); true } None => false } }
                    };
                    if !applied {
                        out.disabled = true;
                    } else if x.w == y.w || y.w == x.w {
                        chk.fail(prop, &format!("perturbed-still-equal {}", pk), format!("a == a': {}, a' == a: {}", x.w == y.w, y.w == x.w));
                    }
                }
                drop(ManuallyDrop::into_inner(x));
                drop(ManuallyDrop::into_inner(y));
            }
        }
    }));
    if let Err(p) = r {
        drop(p);
        let msg = util::take_last_panic();
        let prop = if matches!(job, Job::Eq { .. } | Job::Perturb { .. } | Job::Copy { .. }) { Prop::C16 } else { Prop::C10 };
        chk.fail(prop, &format!("panic {}", jobkind), msg);
    }
    out.fails = arena::with_system(|| chk.fails.iter().map(|f| Failure { prop: f.prop, key: f.key.as_str().to_owned(), detail: f.detail.as_str().to_owned() }).collect());
    drop(chk);
    drop(comp::ledger_end());
    let rep = arena::end();
    let panicked = out.fails.iter().any(|f| f.key.starts_with("panic "));
    if matches!(job, Job::Clone { .. } | Job::CloneFrom { .. }) && !panicked {
        if !rep.errors.is_empty() {
            out.fails.push(Failure { prop: Prop::C10, key: format!("allocator-misuse {}", jobkind), detail: rep.describe() });
        } else if rep.leaked_blocks > 0 {
            out.fails.push(Failure { prop: Prop::C10, key: format!("memory-not-returned {}", jobkind), detail: rep.describe() });
        }
    }
    out
}

fn state_sets(prop: Prop, tier: &str) -> Vec<(&'static str, usize)> {
    let q = tier == "quick";
    match prop {
        Prop::C10 => if q { vec![("copy", 3), ("shape", 2)] } else { vec![("copy", 4), ("shape", 3)] },
        _ => if q { vec![("copy", 3), ("shape", 3), ("alloc", 4)] } else { vec![("copy", 4), ("shape", 4), ("alloc", 5)] },
    }
}

fn job_json(states: &[StateRef], names: &[String], alphas: &[Vec<Op>], follow: &[Op], job: Job) -> serde_json::Value {
    let st = |i: usize| serde_json::json!({"config": names[states[i].cfg], "history": states[i].hist, "ops": states[i].hist.iter().map(|&o| format!("{:?}", alphas[states[i].cfg][o as usize])).collect::<Vec<_>>()});
    match job {
        Job::Clone { src, follow: f } => serde_json::json!({"job": "clone", "src": st(src), "follow": f.map(|(d, o)| serde_json::json!({"on_dst": d, "op_index": o, "op": format!("{:?}", follow[o as usize])}))}),
        Job::CloneFrom { src, dst, follow: f } => serde_json::json!({"job": "clone_from", "src": st(src), "dst": st(dst), "follow": f.map(|(d, o)| serde_json::json!({"on_dst": d, "op_index": o, "op": format!("{:?}", follow[o as usize])}))}),
        Job::Eq { a, b } => serde_json::json!({"job": "eq", "a": st(a), "b": st(b)}),
        Job::Perturb { a, p } => serde_json::json!({"job": "perturb", "a": st(a), "p": p}),
        Job::Copy { a, enc } => serde_json::json!({"job": "copy", "a": st(a), "enc": enc}),
    }
}

pub fn main_pairs(prop: Prop, tier: &str, threads: usize, evidence: Option<&str>, replay_dir: &str, seed: i64, budget_s: u64) -> i32 {
    let t0 = Instant::now();
    let deadline = t0 + std::time::Duration::from_secs(budget_s);
    let sets = state_sets(prop, tier);
    let mut states: Vec<StateRef> = Vec::new();
    let mut alphas: Vec<Vec<Op>> = Vec::new();
    let mut names: Vec<String> = Vec::new();
    let mut found: Vec<Found> = Vec::new();
    let mut base_trans = 0u64;
    for (ci, (name, depth)) in sets.iter().enumerate() {
        let r = bfs(name, *depth, &[], threads, &mut found, deadline);
        println!("config state-set {} depth {}: {} states, {} transitions", name, depth, r.all_states.len(), r.transitions);
        base_trans += r.transitions;
        for h in r.all_states {
            states.push(StateRef { cfg: ci, hist: h });
        }
        alphas.push(alphabet(name));
        names.push(name.to_string());
    }
    let follow = alphabet("follow");
    let n = states.len();
    let mut jobs: Vec<Job> = Vec::new();
    match prop {
        Prop::C10 => {
            let fl: Vec<Option<(bool, u8)>> = std::iter::once(None).chain((0..follow.len() as u8).flat_map(|o| [Some((false, o)), Some((true, o))])).collect();
            for s in 0..n {
                for f in &fl {
                    jobs.push(Job::Clone { src: s, follow: *f });
                }
            }
            // clone_from: every ordered pair; follow-ups for every pair
            for s in 0..n {
                for d in 0..n {
                    for f in &fl {
                        jobs.push(Job::CloneFrom { src: s, dst: d, follow: *f });
                    }
                }
            }
        }
        _ => {
            for a in 0..n {
                for b in 0..n {
                    jobs.push(Job::Eq { a, b });
                }
                for p in 0..12u8 {
                    jobs.push(Job::Perturb { a, p });
                }
                for enc in 0..4u8 {
                    jobs.push(Job::Copy { a, enc });
                }
            }
        }
    }
    println!("config pairs: {} states, {} jobs", n, jobs.len());
    let njobs = jobs.len();
    let results: Vec<Vec<(usize, PairOut)>> = std::thread::scope(|sc| {
        let hs: Vec<_> = (0..threads)
            .map(|t| {
                let (states, alphas, follow, jobs) = (&states, &alphas, &follow, &jobs);
                sc.spawn(move || {
                    arena::init_thread(t);
                    let mut out = Vec::new();
                    let mut i = t;
                    let mut desc = String::new();
                    while i < njobs {
                        if i % 4096 == t && Instant::now() > deadline {
                            break;
                        }
                        desc.clear();
                        use std::fmt::Write;
                        let _ = write!(desc, "engine=hist-pairs arena={} job={:?}", t, jobs[i]);
                        util::set_crash_descriptor(&desc);
                        let o = run_job(states, alphas, follow, jobs[i], i);
                        out.push((i, o));
                        i += threads;
                    }
                    out
                })
            })
            .collect();
        hs.into_iter().map(|h| h.join().expect("worker died")).collect()
    });
    let mut done = 0u64;
    let mut disabled = 0u64;
    let mut eq_true = 0u64;
    let mut same_content = 0u64;
    let mut same_not_eq = 0u64;
    let mut by_kind: BTreeMap<&'static str, u64> = BTreeMap::new();
    let mut pfound: Vec<(Failure, Job, usize, u64)> = Vec::new();
    let mut flat: Vec<(usize, PairOut)> = results.into_iter().flatten().collect();
    flat.sort_by_key(|x| x.0);
    for (i, o) in flat {
        done += 1;
        if o.disabled { disabled += 1; continue; }
        *by_kind.entry(match jobs[i] { Job::Clone { follow: None, .. } => "clone", Job::Clone { .. } => "clone+op", Job::CloneFrom { follow: None, .. } => "clone_from", Job::CloneFrom { .. } => "clone_from+op", Job::Eq { .. } => "eq", Job::Perturb { .. } => "perturb", Job::Copy { .. } => "copy" }).or_default() += 1;
        if o.eq_true { eq_true += 1; }
        if o.same_content { same_content += 1; if !o.eq_true { same_not_eq += 1; } }
        for f in o.fails {
            if f.prop != prop { continue; }
            if let Some(x) = pfound.iter_mut().find(|x| x.0.key == f.key) { x.3 += 1; } else { pfound.push((f, jobs[i], i % threads, 1)); }
        }
    }
    let capped = (done as usize) < njobs;
    let mut found_json = Vec::new();
    for (f, job, arena_idx, count) in &pfound {
        let dir = format!("{}/{}", replay_dir, prop.name());
        let _ = std::fs::create_dir_all(&dir);
        let fname: String = f.key.chars().map(|c| if c.is_ascii_alphanumeric() || c == '-' || c == '=' { c } else { '_' }).collect();
        let path = format!("{}/pairs-{}.json", dir, fname);
        let mut j = job_json(&states, &names, &alphas, &follow, *job);
        j["engine"] = "hist-pairs".into();
        j["property"] = prop.name().into();
        j["key"] = f.key.clone().into();
        j["detail"] = f.detail.clone().into();
        j["arena"] = (*arena_idx).into();
        j["occurrences"] = (*count).into();
        std::fs::write(&path, serde_json::to_string_pretty(&j).unwrap()).unwrap();
        println!("FOUND property={} key={} replay={} count={} :: {}", prop.name(), f.key.replace(' ', "_"), path, count, f.detail);
        found_json.push(serde_json::json!({"key": f.key, "replay": path, "count": count}));
    }
    let samples: Vec<serde_json::Value> = [njobs / 3, njobs / 2, njobs - 1].iter().map(|&i| job_json(&states, &names, &alphas, &follow, jobs[i])).collect();
    let ev = serde_json::json!({
        "property_id": prop.name(), "tier": tier, "seed": seed, "level": "model_checking",
        "coverage": {
            "states": n, "transitions": done - disabled, "traces_validated_against_impl": done - disabled,
            "samples": samples,
            "explanation": "state set = every state of the listed BFS runs; each job rebuilds its source/destination world(s) from their representative histories on the real World and executes clone/clone_from/== there",
            "state_sets": sets.iter().map(|(n, d)| format!("{}:{}", n, d)).collect::<Vec<_>>(),
            "state_set_transitions": base_trans,
            "jobs": njobs, "jobs_done": done, "jobs_disabled": disabled, "jobs_by_kind": by_kind,
            "pairs_comparing_equal": eq_true, "pairs_with_same_contents": same_content, "same_contents_but_unequal_structure": same_not_eq,
            "exhaustive_within_bounds": !capped, "found": found_json, "threads": threads,
        },
        "assumptions": ["values normalised to a function of (identifier, component) before comparing worlds built by different histories (C16)",
                        "follow-up alphabet of 12 operations applied to either side after each clone/clone_from (C10)"],
        "wall_s": t0.elapsed().as_secs_f64(), "violations": pfound.len(),
    });
    if let Some(p) = evidence {
        std::fs::write(p, serde_json::to_string_pretty(&ev).unwrap()).unwrap();
    }
    println!("config pairs done: {} jobs ({} disabled), eq-true {}, same-content {}, same-content-not-eq {} [{:.1}s]", done, disabled, eq_true, same_content, same_not_eq, t0.elapsed().as_secs_f64());
    if capped {
        println!("MACHINERY-ERROR time budget exhausted before all pairs were covered");
        return 2;
    }
    if pfound.is_empty() { 0 } else { 1 }
}

pub fn replay_pairs(path: &str) -> i32 {
    let j: serde_json::Value = serde_json::from_str(&std::fs::read_to_string(path).unwrap()).unwrap();
    let prop = Prop::parse(j["property"].as_str().unwrap()).unwrap();
    let mut states = Vec::new();
    let mut alphas = Vec::new();
    let mut add = |v: &serde_json::Value| -> usize {
        alphas.push(alphabet(v["config"].as_str().unwrap()));
        states.push(StateRef { cfg: alphas.len() - 1, hist: v["history"].as_array().unwrap().iter().map(|x| x.as_u64().unwrap() as u8).collect() });
        states.len() - 1
    };
    let fl = |v: &serde_json::Value| -> Option<(bool, u8)> { if v.is_null() { None } else { Some((v["on_dst"].as_bool().unwrap(), v["op_index"].as_u64().unwrap() as u8)) } };
    let job = match j["job"].as_str().unwrap() {
        "clone" => Job::Clone { src: add(&j["src"]), follow: fl(&j["follow"]) },
        "clone_from" => { let s = add(&j["src"]); let d = add(&j["dst"]); Job::CloneFrom { src: s, dst: d, follow: fl(&j["follow"]) } }
        "eq" => { let a = add(&j["a"]); let b = add(&j["b"]); Job::Eq { a, b } }
        "copy" => Job::Copy { a: add(&j["a"]), enc: j["enc"].as_u64().unwrap() as u8 },
        _ => Job::Perturb { a: add(&j["a"]), p: j["p"].as_u64().unwrap() as u8 },
    };
    println!("replaying {:?}\n{}", job, serde_json::to_string_pretty(&j).unwrap());
    let follow = alphabet("follow");
    let arena_idx = j["arena"].as_u64().unwrap_or(0) as usize;
    let out = std::thread::scope(|s| s.spawn(|| { arena::init_thread(arena_idx); run_job(&states, &alphas, &follow, job, 0) }).join().unwrap());
    let mut rc = 0;
    for f in out.fails {
        if f.prop == prop {
            println!("VIOLATION property={} replay={} :: {} :: {}", prop.name(), path, f.key, f.detail);
            rc = 1;
        }
    }
    if rc == 0 { println!("no violation"); }
    rc
}
