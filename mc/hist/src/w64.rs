//! Derived from w0.rs: a registry of 64 components (identifier of eight
//! full bytes; `1 << LEN` overflows a usize; positions 0, 31 and 63 are used).  Reduced history harness: liveness, structure
//! audit, memory, drop ledger, round trips, queries on the last position.

use brood::{entity, query::{result, Views}, Query, Registry, World};
use mccore::comp::{self, Comp, Small};
use mccore::s4::{audit_n, canon_world, idp, mkid, Checker, Failure, Id, Model, Prop};
use mccore::{arena, util};
use std::collections::BTreeMap;

pub type K00 = Small<300>;
pub type K01 = Small<301>;
pub type K02 = Small<302>;
pub type K03 = Small<303>;
pub type K04 = Small<304>;
pub type K05 = Small<305>;
pub type K06 = Small<306>;
pub type K07 = Small<307>;
pub type K08 = Small<308>;
pub type K09 = Small<309>;
pub type K10 = Small<310>;
pub type K11 = Small<311>;
pub type K12 = Small<312>;
pub type K13 = Small<313>;
pub type K14 = Small<314>;
pub type K15 = Small<315>;
pub type K16 = Small<316>;
pub type K17 = Small<317>;
pub type K18 = Small<318>;
pub type K19 = Small<319>;
pub type K20 = Small<320>;
pub type K21 = Small<321>;
pub type K22 = Small<322>;
pub type K23 = Small<323>;
pub type K24 = Small<324>;
pub type K25 = Small<325>;
pub type K26 = Small<326>;
pub type K27 = Small<327>;
pub type K28 = Small<328>;
pub type K29 = Small<329>;
pub type K30 = Small<330>;
pub type K31 = Small<331>;
pub type K32 = Small<332>;
pub type K33 = Small<333>;
pub type K34 = Small<334>;
pub type K35 = Small<335>;
pub type K36 = Small<336>;
pub type K37 = Small<337>;
pub type K38 = Small<338>;
pub type K39 = Small<339>;
pub type K40 = Small<340>;
pub type K41 = Small<341>;
pub type K42 = Small<342>;
pub type K43 = Small<343>;
pub type K44 = Small<344>;
pub type K45 = Small<345>;
pub type K46 = Small<346>;
pub type K47 = Small<347>;
pub type K48 = Small<348>;
pub type K49 = Small<349>;
pub type K50 = Small<350>;
pub type K51 = Small<351>;
pub type K52 = Small<352>;
pub type K53 = Small<353>;
pub type K54 = Small<354>;
pub type K55 = Small<355>;
pub type K56 = Small<356>;
pub type K57 = Small<357>;
pub type K58 = Small<358>;
pub type K59 = Small<359>;
pub type K60 = Small<360>;
pub type K61 = Small<361>;
pub type K62 = Small<362>;
pub type K63 = Small<363>;
pub type Reg0 = Registry!(K00, K01, K02, K03, K04, K05, K06, K07, K08, K09, K10, K11, K12, K13, K14, K15, K16, K17, K18, K19, K20, K21, K22, K23, K24, K25, K26, K27, K28, K29, K30, K31, K32, K33, K34, K35, K36, K37, K38, K39, K40, K41, K42, K43, K44, K45, K46, K47, K48, K49, K50, K51, K52, K53, K54, K55, K56, K57, K58, K59, K60, K61, K62, K63);
pub type W0 = World<Reg0>;

#[derive(Clone, Copy, Debug, PartialEq, Eq)]
pub enum Op0 {
    Insert,
    InsertLastFirst,
    InsertMid,
    AddLast,
    RemoveFirst,
    MutLast,
    ExtendNone,
    RemoveLo,
    RemoveHi,
    RemoveStale,
    Clear,
    Reserve,
    Shrink,
    CloneSelf,
    Snapshot,
    CloneFromAux,
    RtJson,
    RtTok(bool),
}

impl Op0 {
    pub fn kind(&self) -> &'static str {
        match self {
            Op0::Insert | Op0::InsertLastFirst | Op0::InsertMid => "insert",
            Op0::AddLast => "entry_add",
            Op0::RemoveFirst => "entry_remove",
            Op0::MutLast => "mut_query",
            Op0::ExtendNone => "extend",
            Op0::RemoveLo | Op0::RemoveHi | Op0::RemoveStale => "remove",
            Op0::Clear => "clear",
            Op0::Reserve => "reserve",
            Op0::Shrink => "shrink_to_fit",
            Op0::CloneSelf => "clone",
            Op0::Snapshot => "snapshot",
            Op0::CloneFromAux => "clone_from",
            Op0::RtJson => "rt_json",
            Op0::RtTok(_) => "rt_tok",
        }
    }
}

pub fn alphabet0() -> Vec<Op0> {
    vec![Op0::Insert, Op0::InsertLastFirst, Op0::InsertMid, Op0::AddLast, Op0::RemoveFirst, Op0::MutLast, Op0::ExtendNone, Op0::RemoveLo, Op0::RemoveHi, Op0::RemoveStale, Op0::Clear, Op0::Reserve, Op0::Shrink, Op0::CloneSelf, Op0::Snapshot, Op0::CloneFromAux, Op0::RtJson, Op0::RtTok(false), Op0::RtTok(true)]
}

struct Exec0 {
    w: W0,
    aux: Option<W0>,
    m: Model,
    maux: Option<Model>,
}

fn snapshot(w: &mut W0) -> Vec<(Id, [bool; 3])> {
    let mut v: Vec<(Id, [bool; 3])> = w.query(Query::<Views!(entity::Identifier, Option<&K00>, Option<&K31>, Option<&K63>)>::new()).iter.map(|result!(id, a, b, c)| {
        for x in [a.map(|x| x.read().0), b.map(|x| x.read().0), c.map(|x| x.read().0)].into_iter().flatten() {
            std::hint::black_box(x);
        }
        (idp(id), [a.is_some(), b.is_some(), c.is_some()])
    }).collect();
    v.sort();
    v
}

fn rt_tok0(w: &W0, human: bool, seq: bool) -> Result<W0, String> {
    use serde::{Deserialize, Serialize};
    let ser = if seq {
        serde_assert::Serializer::builder().is_human_readable(human).serialize_struct_as(serde_assert::ser::SerializeStructAs::Seq).build()
    } else {
        serde_assert::Serializer::builder().is_human_readable(human).build()
    };
    let t = w.serialize(&ser).map_err(|e| format!("serialize failed: {e:?}"))?;
    let shown = format!("{:?}", t);
    let mut de = serde_assert::Deserializer::builder().tokens(t).is_human_readable(human).build();
    W0::deserialize(&mut de).map_err(|e| format!("deserialize of own output failed: {e:?}; tokens={shown}"))
}

impl Exec0 {
    fn apply(&mut self, op: &Op0, chk: &mut Checker) -> bool {
        let live: Vec<Id> = self.m.ents.keys().copied().collect();
        match *op {
            Op0::Insert | Op0::InsertLastFirst | Op0::InsertMid => {
                // model rows: [first (K00), mid (K31), last (K63), unused]
                let (id, row) = match *op {
                    Op0::Insert => (self.w.insert(entity!(K00::make(1))), [Some(1), None, None, None]),
                    Op0::InsertLastFirst => (self.w.insert(entity!(K63::make(3), K00::make(1))), [Some(1), None, Some(3), None]),
                    _ => (self.w.insert(entity!(K31::make(2))), [None, Some(2), None, None]),
                };
                let id = idp(id);
                if self.m.issued.contains(&id) {
                    chk.fail(Prop::C02, "reissued-identifier op=insert", format!("{:?}", id));
                }
                self.m.issued.push(id);
                self.m.ents.insert(id, row);
            }
            Op0::AddLast => {
                let Some(id) = live.first() else { return false };
                self.w.entry(mkid(*id)).unwrap().add(K63::make(3));
                self.m.ents.get_mut(id).unwrap()[2] = Some(3);
            }
            Op0::RemoveFirst => {
                let Some(id) = live.first() else { return false };
                self.w.entry(mkid(*id)).unwrap().remove::<K00, _>();
                self.m.ents.get_mut(id).unwrap()[0] = None;
            }
            Op0::MutLast => {
                let mut visited: Vec<Id> = Vec::new();
                for result!(id, c) in self.w.query(Query::<Views!(entity::Identifier, &mut K63)>::new()).iter {
                    let v = c.read().0;
                    c.set(v);
                    visited.push(idp(id));
                }
                visited.sort();
                let want: Vec<Id> = self.m.ents.iter().filter(|(_, r)| r[2].is_some()).map(|(i, _)| *i).collect();
                let mut has: Vec<Id> = self.w.query(Query::<Views!(entity::Identifier), brood::query::filter::Not<brood::query::filter::Has<K63>>>::new()).iter.map(|result!(id)| idp(id)).collect();
                has.sort();
                let wantnot: Vec<Id> = self.m.ents.iter().filter(|(_, r)| r[2].is_none()).map(|(i, _)| *i).collect();
                if visited != want || has != wantnot {
                    chk.fail(Prop::C01, "query-selected-the-wrong-entities", format!("&mut K63 visited {:?} (model {:?}); Not<Has<K63>> {:?} (model {:?})", visited, want, has, wantnot));
                    chk.fail(Prop::C03, "query-selected-the-wrong-entities", format!("&mut K63 visited {:?} (model {:?}); Not<Has<K63>> {:?} (model {:?})", visited, want, has, wantnot));
                }
            }
            Op0::ExtendNone => {
                let ids = self.w.extend(brood::entities!());
                if !ids.is_empty() {
                    chk.fail(Prop::C01, "extend-returned-count", format!("{} identifiers for an empty batch", ids.len()));
                }
            }
            Op0::RemoveLo => {
                let Some(id) = live.first() else { return false };
                self.w.remove(mkid(*id));
                self.m.ents.remove(id);
            }
            Op0::RemoveHi => {
                if live.len() < 2 {
                    return false;
                }
                let id = live.last().unwrap();
                self.w.remove(mkid(*id));
                self.m.ents.remove(id);
            }
            Op0::RemoveStale => {
                let dead: Vec<Id> = self.m.issued.iter().copied().filter(|i| !self.m.ents.contains_key(i)).collect();
                if dead.is_empty() {
                    return false;
                }
                for id in dead {
                    self.w.remove(mkid(id));
                }
            }
            Op0::Clear => {
                self.w.clear();
                self.m.ents.clear();
            }
            Op0::Reserve => self.w.reserve::<brood::Entity!(K63, K00), _>(3),
            Op0::Shrink => self.w.shrink_to_fit(),
            Op0::CloneSelf => {
                let c = self.w.clone();
                if !(c == self.w) || !(self.w == c) {
                    chk.fail(Prop::C10, "copy-not-equal op=clone", String::new());
                }
                self.w = c;
            }
            Op0::Snapshot => {
                self.aux = Some(self.w.clone());
                self.maux = Some(self.m.clone());
            }
            Op0::CloneFromAux => {
                let Some(aux) = self.aux.as_ref() else { return false };
                self.w.clone_from(aux);
                self.m = self.maux.clone().unwrap();
            }
            Op0::RtJson => match serde_json::to_string(&self.w).map_err(|e| e.to_string()).and_then(|s| serde_json::from_str::<W0>(&s).map_err(|e| format!("deserialize of own output failed: {e}; text={s}"))) {
                Ok(w2) => {
                    if !(self.w == w2) {
                        chk.fail(Prop::C06, "roundtrip-not-equal enc=json", String::new());
                    }
                    self.w = w2;
                }
                Err(e) => {
                    chk.fail(Prop::C06, "roundtrip-failed enc=json", e.clone());
                    chk.fail(Prop::C01, "roundtrip-failed enc=json", e);
                }
            },
            Op0::RtTok(human) => {
                for seq in [true, false] {
                    match rt_tok0(&self.w, human, seq) {
                        Ok(w2) => {
                            if !(self.w == w2) {
                                chk.fail(Prop::C06, "roundtrip-not-equal enc=tok", String::new());
                            }
                            if !seq {
                                self.w = w2;
                            }
                        }
                        Err(e) => {
                            let k = format!("roundtrip-failed enc=tok-{}{}", if human { "hr" } else { "compact" }, if seq { "-structs-as-sequences" } else { "" });
                            chk.fail(Prop::C06, &k, e.clone());
                            chk.fail(Prop::C01, &k, e);
                        }
                    }
                }
            }
        }
        true
    }

    fn check(&mut self, chk: &mut Checker, k: &str) {
        for (which, w, m) in [("world", Some(&mut self.w), Some(&self.m)), ("aux", self.aux.as_mut(), self.maux.as_ref())] {
            let (Some(w), Some(m)) = (w, m) else { continue };
            let got = snapshot(w);
            let want: Vec<(Id, [bool; 3])> = m.ents.iter().map(|(i, r)| (*i, [r[0].is_some(), r[1].is_some(), r[2].is_some()])).collect();
            if got != want {
                chk.fail(if which == "aux" { Prop::C10 } else { Prop::C01 }, &format!("contents-differ op={} world={}", k, which), format!("world {:?} model {:?}", got, want));
            }
            if w.len() != want.len() || w.is_empty() != want.is_empty() {
                chk.fail(Prop::C01, &format!("len-differs op={}", k), format!("len {} is_empty {} model {}", w.len(), w.is_empty(), want.len()));
            }
            for &id in &m.issued {
                let live = m.ents.contains_key(&id);
                if w.contains(mkid(id)) != live || w.entry(mkid(id)).is_some() != live {
                    chk.fail(Prop::C02, &format!("identifier-resolution-wrong live={} op={}", live, k), format!("{:?}", id));
                }
            }
            let _ = audit_n; // the S4 audit compares single-byte masks; the 64-component structure is audited through canon + liveness only
        }
    }

    fn canon(&self) -> Vec<u8> {
        let mut out = Vec::new();
        for w in [Some(&self.w), self.aux.as_ref()] {
            match w {
                None => out.push(0xee),
                Some(w) => canon_world(&w.verif_dump(), &mut out, true),
            }
        }
        out
    }
}

pub struct Outcome0 {
    pub disabled: bool,
    pub hash: u128,
    pub fails: Vec<Failure>,
    pub allocs: u64,
}

pub fn run_one(ops: &[Op0], hist: &[u8], props: &[Prop]) -> Outcome0 {
    arena::begin(0);
    comp::ledger_begin();
    let mut chk = Checker::default();
    let mut disabled = false;
    let mut hash = 0u128;
    let lastk = hist.last().map_or("init", |&o| ops[o as usize].kind());
    let r = std::panic::catch_unwind(std::panic::AssertUnwindSafe(|| {
        let mut ex = std::mem::ManuallyDrop::new(Exec0 { w: W0::new(), aux: None, m: Model { ents: BTreeMap::new(), issued: vec![], res: (0, 0) }, maux: None });
        for (i, &oi) in hist.iter().enumerate() {
            if !ex.apply(&ops[oi as usize], &mut chk) {
                if i + 1 != hist.len() {
                    panic!("machinery: disabled op inside a representative history");
                }
                disabled = true;
                break;
            }
        }
        if !disabled {
            ex.check(&mut chk, lastk);
            hash = util::hash128(&ex.canon());
        }
        let Exec0 { w, aux, m, maux } = std::mem::ManuallyDrop::into_inner(ex);
        drop(aux);
        drop(w);
        drop((m, maux));
    }));
    if r.is_err() {
        let msg = util::take_last_panic();
        for &p in props {
            chk.fail(p, &format!("panic op={}", lastk), msg.clone());
        }
    }
    let mut fails: Vec<Failure> = arena::with_system(|| chk.fails.iter().map(|f| Failure { prop: f.prop, key: f.key.as_str().to_owned(), detail: f.detail.as_str().to_owned() }).collect());
    drop(chk);
    drop(comp::ledger_end());
    let rep = arena::end();
    if !disabled {
        let panicked = fails.iter().any(|f| f.key.starts_with("panic "));
        if !rep.errors.is_empty() {
            fails.push(Failure { prop: Prop::C05, key: format!("allocator-misuse after={}", lastk), detail: rep.describe() });
        } else if rep.leaked_blocks > 0 && !panicked {
            fails.push(Failure { prop: Prop::C05, key: format!("memory-not-returned after={}", lastk), detail: rep.describe() });
        }
    }
    fails.retain(|f| props.contains(&f.prop));
    Outcome0 { disabled, hash, fails, allocs: rep.total_allocs }
}
