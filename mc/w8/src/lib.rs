//! One wide-registry harness instance (separate crate so the instances compile in parallel).
mcwide::wide_harness!(w8, 8, [T0 = 0, T1 = 1, T2 = 2, T3 = 3, T4 = 4, T5 = 5, T6 = 6, T7 = 7],
    positions = [0, 3, 6, 7],
    shapes = [[T0], [T7], [T0, T7], [T3, T6, T7]]);
pub use w8::*;
