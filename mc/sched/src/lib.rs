//! E3: stateless exploration of `World::run_schedule` through the fork/join seam (hook H2).
//!
//! The handler registered with `brood::verif::shim` records every forked task of a fork/join nest,
//! runs the continuation side to the bottom of the nest first, and then runs the pending tasks in
//! the order chosen by a DFS explorer.  Every permutation of a nest is a legal rayon execution
//! (a forked closure may run at any time until its `join` returns), so enumerating them covers
//! every admissible order of the tasks the scheduler allows to overlap.

use brood::{entity, resources, Registry, Resources, World};
use mccore::arena;
use std::cell::RefCell;
use std::sync::atomic::{AtomicU32, AtomicU64, Ordering};
use std::sync::Mutex;

#[global_allocator]
static GLOBAL: arena::Arena = arena::Arena;

#[derive(Clone, Copy, Debug, PartialEq, Eq)]
pub struct A(pub u64);
#[derive(Clone, Copy, Debug, PartialEq, Eq)]
pub struct B(pub u64);
#[derive(Clone, Copy, Debug, PartialEq, Eq)]
pub struct C(pub u64);
#[derive(Clone, Copy, Debug, PartialEq, Eq)]
pub struct R0(pub u64);
#[derive(Clone, Copy, Debug, PartialEq, Eq)]
pub struct R1(pub u64);
#[derive(Clone, Copy, Debug, PartialEq, Eq)]
pub struct R2(pub u64);

pub type Reg = Registry!(A, B, C);
pub type Res = Resources!(R0, R1, R2);
pub type W = World<Reg, Res>;

// ---------------------------------------------------------------------------------------------
// Task instrumentation

#[derive(Clone, Copy, Debug, PartialEq, Eq, PartialOrd, Ord)]
pub struct Foot {
    pub addr: usize,
    pub size: usize,
    pub mutable: bool,
}

pub struct TaskState {
    pub idx: usize,
    pub runs: AtomicU32,
    pub fold: AtomicU64,
    pub foot: Mutex<Vec<Foot>>,
    pub ids: Vec<entity::Identifier>,
}

fn mix(x: u64) -> u64 {
    let mut z = x.wrapping_add(0x9e37_79b9_7f4a_7c15);
    z = (z ^ (z >> 30)).wrapping_mul(0xbf58_476d_1ce4_e5b9);
    z = (z ^ (z >> 27)).wrapping_mul(0x94d0_49bb_1331_11eb);
    z ^ (z >> 31)
}

impl TaskState {
    pub fn new(idx: usize, ids: &[entity::Identifier]) -> TaskState {
        TaskState { idx, runs: AtomicU32::new(0), fold: AtomicU64::new(0), foot: Mutex::new(Vec::new()), ids: ids.to_vec() }
    }
    /// Called at the start of the task body.
    pub fn enter(&self) {
        self.runs.fetch_add(1, Ordering::SeqCst);
        task_started(self.idx);
        mccore::comp::tick(mccore::comp::Cb::System);
    }
    fn add(&self, v: u64) {
        // commutative: archetype iteration order is address dependent
        self.fold.fetch_add(mix(v), Ordering::SeqCst);
    }
    fn touch(&self, addr: usize, mutable: bool) {
        self.foot.lock().unwrap().push(Foot { addr, size: 8, mutable });
    }
    /// Immutable reference handed to the task (slot tags distinguish view positions).
    pub fn r(&self, slot: u64, x: &u64) {
        self.touch(x as *const u64 as usize, false);
        self.add(slot.wrapping_mul(0x1_0000_0001).wrapping_add(*x));
    }
    /// Mutable reference handed to the task: read, then `x := 3x + idx + 1`.
    pub fn w(&self, slot: u64, x: &mut u64) {
        self.touch(x as *mut u64 as usize, true);
        self.add(slot.wrapping_mul(0x1_0000_0001).wrapping_add(*x));
        *x = x.wrapping_mul(3).wrapping_add(self.idx as u64 + 1);
    }
    /// Mutable reference obtained through an entry view: `x := 5x + idx + 1`.
    pub fn ew(&self, slot: u64, x: &mut u64) {
        self.touch(x as *mut u64 as usize, true);
        self.add(slot.wrapping_mul(0x1_0000_0001).wrapping_add(*x));
        *x = x.wrapping_mul(5).wrapping_add(self.idx as u64 + 1);
    }
    pub fn none(&self, slot: u64) {
        self.add(slot.wrapping_mul(0x7777_0001));
    }
    pub fn ident(&self, slot: u64, id: entity::Identifier) {
        let (i, g) = id.verif_parts();
        self.add(slot.wrapping_mul(0x1357_0001).wrapping_add((i as u64) << 20 | g));
    }
    pub fn snapshot(&self) -> TaskSnap {
        let mut foot = self.foot.lock().unwrap().clone();
        foot.sort();
        foot.dedup();
        TaskSnap { idx: self.idx, runs: self.runs.load(Ordering::SeqCst), fold: self.fold.load(Ordering::SeqCst), foot }
    }
}

#[derive(Clone, Debug, PartialEq, Eq)]
pub struct TaskSnap {
    pub idx: usize,
    pub runs: u32,
    pub fold: u64,
    pub foot: Vec<Foot>,
}

// ---------------------------------------------------------------------------------------------
// Explorer (process-global, used from the single exploring thread)

struct Pending {
    b: *mut (dyn FnMut() + Send),
    done: bool,
    /// logical times of the fork and of the return of the join that forked this task
    fork: usize,
    task: Option<usize>,
}

#[derive(Default)]
struct Explorer {
    active: bool,
    depth: usize,
    pending: Vec<Pending>,
    /// (choice, number of options) to replay, then 0 afterwards
    prefix: Vec<(usize, usize)>,
    trace: Vec<(usize, usize)>,
    /// tasks in start order, with the nest they ran in
    started: Vec<(usize, usize)>,
    /// logical clock and (task, fork time, join-return time)
    clock: usize,
    intervals: Vec<(usize, usize, usize)>,
    running: Option<usize>,
    nest: usize,
    in_nest: bool,
    diverged: bool,
    /// nest ordinals that actually contained a fork
    forks_per_nest: Vec<usize>,
    /// when set, pending tasks are run in fork order (plain sequential nest), no choices
    fault_pending_panic: Option<Box<dyn std::any::Any + Send>>,
}

thread_local! {
    static EXP: RefCell<Explorer> = RefCell::new(Explorer::default());
}

fn task_started(idx: usize) {
    EXP.with(|e| {
        if let Ok(mut e) = e.try_borrow_mut() {
            if e.active {
                let n = e.nest;
                e.started.push((idx, n));
                if let Some(p) = e.running {
                    if p < e.pending.len() {
                        e.pending[p].task = Some(idx);
                    }
                }
            }
        }
    });
}

fn choose(n: usize) -> usize {
    EXP.with(|e| {
        let mut e = e.borrow_mut();
        let pos = e.trace.len();
        let c = if pos < e.prefix.len() {
            let (c, pn) = e.prefix[pos];
            if pn != n || c >= n {
                e.diverged = true;
                0
            } else {
                c
            }
        } else {
            0
        };
        e.trace.push((c, n));
        c
    })
}

fn handler(a: &mut (dyn FnMut() + Send), b: &mut (dyn FnMut() + Send)) -> bool {
    let active = EXP.with(|e| e.borrow().active);
    if !active {
        return false;
    }
    // SAFETY (harness): the closure behind `b` lives in the caller's frame, which stays alive until this
    // handler invocation returns; every pending pointer is used only before its own frame returns.
    let bptr: *mut (dyn FnMut() + Send) = unsafe { std::mem::transmute(b) };
    let my = EXP.with(|e| {
        let mut e = e.borrow_mut();
        if e.depth == 0 {
            e.nest += 1;
            e.in_nest = true;
            e.pending.clear();
            e.forks_per_nest.push(0);
        }
        e.depth += 1;
        *e.forks_per_nest.last_mut().unwrap() += 1;
        e.clock += 1;
        let now = e.clock;
        e.pending.push(Pending { b: bptr, done: false, fork: now, task: None });
        e.pending.len() - 1
    });
    // the continuation side may panic (only through tasks it ran itself); mirror rayon: finish the
    // forked side, then resume unwinding
    let ra = std::panic::catch_unwind(std::panic::AssertUnwindSafe(|| a()));
    let mine_done = EXP.with(|e| e.borrow().pending[my].done);
    let mut first_panic: Option<Box<dyn std::any::Any + Send>> = ra.err();
    if !mine_done {
        loop {
            let cands: Vec<usize> = EXP.with(|e| e.borrow().pending.iter().enumerate().filter(|(_, p)| !p.done).map(|(i, _)| i).collect());
            if cands.is_empty() {
                break;
            }
            let c = if cands.len() > 1 { choose(cands.len()) } else { 0 };
            let i = cands[c];
            let p = EXP.with(|e| {
                let mut e = e.borrow_mut();
                e.pending[i].done = true;
                e.running = Some(i);
                e.pending[i].b
            });
            let r = std::panic::catch_unwind(std::panic::AssertUnwindSafe(|| unsafe { (*p)() }));
            if let Err(p) = r {
                if first_panic.is_none() {
                    first_panic = Some(p);
                }
            }
        }
    }
    EXP.with(|e| {
        let mut e = e.borrow_mut();
        // this join returns now: its own task may have overlapped everything forked before this moment
        e.clock += 1;
        let now = e.clock;
        if let (Some(t), f) = (e.pending[my].task, e.pending[my].fork) {
            e.intervals.push((t, f, now));
        }
        e.depth -= 1;
        if e.depth == 0 {
            e.in_nest = false;
            e.pending.clear();
        }
    });
    if let Some(p) = first_panic {
        std::panic::resume_unwind(p);
    }
    true
}

pub fn install_handler() {
    brood::verif::shim::set_handler(Some(handler));
}

#[derive(Clone, Debug, Default)]
pub struct RunTrace {
    /// (task, fork time, join-return time) on a logical clock
    pub intervals: Vec<(usize, usize, usize)>,
    pub trace: Vec<(usize, usize)>,
    /// (task idx, nest ordinal starting at 1) in start order
    pub started: Vec<(usize, usize)>,
    pub nests: usize,
    pub diverged: bool,
}

/// Runs `f` under the explorer with the given choice prefix.
pub fn run_controlled(prefix: &[(usize, usize)], f: impl FnOnce()) -> RunTrace {
    EXP.with(|e| {
        let mut e = e.borrow_mut();
        *e = Explorer::default();
        e.active = true;
        e.prefix = prefix.to_vec();
    });
    f();
    EXP.with(|e| {
        // everything the explorer allocated during this execution is released here, inside the same
        // arena epoch (a later release would alias blocks of the next execution)
        let mut old = std::mem::take(&mut *e.borrow_mut());
        RunTrace { intervals: std::mem::take(&mut old.intervals), trace: std::mem::take(&mut old.trace), started: std::mem::take(&mut old.started), nests: old.nest, diverged: old.diverged }
    })
}

/// Runs `f` with the handler declining (real `rayon::join`), still recording start order.
pub fn run_uncontrolled(f: impl FnOnce()) {
    EXP.with(|e| {
        let mut e = e.borrow_mut();
        *e = Explorer::default();
    });
    f();
}

/// Ends the arena epoch; anything still allocated would be released in a later epoch and alias its
/// blocks, so a leak here is a machinery error.
pub fn arena_end_checked() {
    let rep = arena::end();
    if rep.leaked_blocks > 0 || !rep.errors.is_empty() {
        println!("MACHINERY-ERROR harness leaked or misused arena memory: {}", rep.describe());
        std::process::exit(2);
    }
}

/// Next DFS prefix after `trace`, or None when the choice tree is exhausted.
pub fn next_prefix(trace: &[(usize, usize)]) -> Option<Vec<(usize, usize)>> {
    let mut i = trace.len();
    while i > 0 {
        i -= 1;
        if trace[i].0 + 1 < trace[i].1 {
            let mut p = trace[..i].to_vec();
            p.push((trace[i].0 + 1, trace[i].1));
            return Some(p);
        }
    }
    None
}

// ---------------------------------------------------------------------------------------------
// World catalogue: per archetype over (A, B) x {absent, present-but-empty, two entities}; C only in
// dedicated extra worlds.

#[derive(Clone, Debug, PartialEq, Eq)]
pub struct WorldSpec {
    /// per archetype mask 0..8 (bit0 = A, bit1 = B, bit2 = C): 0 absent, 1 empty, 2 two entities
    pub arch: [u8; 8],
}

impl WorldSpec {
    pub fn describe(&self) -> String {
        let mut s = String::new();
        for (m, &k) in self.arch.iter().enumerate() {
            if k > 0 {
                let name: String = ["A", "B", "C"].iter().enumerate().filter(|(i, _)| m >> i & 1 == 1).map(|(_, n)| *n).collect();
                s.push_str(&format!("{{{}}}:{} ", name, if k == 1 { "empty" } else { "2" }));
            }
        }
        if s.is_empty() { "(no tables)".into() } else { s.trim_end().to_string() }
    }
}

/// 81 worlds over the (A,B) sub-registry plus a handful that involve C.
pub fn catalogue(with_c: bool) -> Vec<WorldSpec> {
    let mut v = Vec::new();
    for code in 0..81usize {
        let mut arch = [0u8; 8];
        let mut c = code;
        for m in 0..4 {
            arch[m] = (c % 3) as u8;
            c /= 3;
        }
        v.push(WorldSpec { arch });
    }
    if with_c {
        // every combination of the C-carrying tables {C}, {A,C}, {B,C}, {A,B,C} (two entities each), alone and next
        // to an {A,B} table: worlds in which the only table shared by several tasks is a C table
        for bits in 1..16usize {
            for ab in [0u8, 2] {
                let mut arch = [0u8; 8];
                for (k, m) in [4usize, 5, 6, 7].iter().enumerate() {
                    if bits >> k & 1 == 1 {
                        arch[*m] = 2;
                    }
                }
                arch[3] = ab;
                v.push(WorldSpec { arch });
            }
        }
        for (extra, kinds) in [(4usize, [2u8, 0, 0, 0]), (5, [2, 2, 0, 0]), (7, [2, 0, 2, 2]), (6, [0, 2, 2, 0]), (7, [1, 2, 2, 2])] {
            let mut arch = [0u8; 8];
            arch[extra] = kinds[0].max(2);
            arch[1] = kinds[1];
            arch[2] = kinds[2];
            arch[3] = kinds[3];
            v.push(WorldSpec { arch });
        }
    }
    v
}

pub fn build_world(spec: &WorldSpec) -> (W, Vec<entity::Identifier>) {
    let mut w = W::with_resources(resources!(R0(1000), R1(2000), R2(3000)));
    let mut ids = Vec::new();
    for m in 0..8usize {
        let k = spec.arch[m];
        if k == 0 {
            continue;
        }
        let n = if k == 1 { 1 } else { 2 };
        let mut mine = Vec::new();
        for j in 0..n {
            let base = (m as u64 + 1) * 100 + j as u64 * 10;
            let (a, b, c) = (A(base + 1), B(base + 2), C(base + 3));
            let id = match m {
                0 => w.insert(brood::entity!()),
                1 => w.insert(brood::entity!(a)),
                2 => w.insert(brood::entity!(b)),
                3 => w.insert(brood::entity!(a, b)),
                4 => w.insert(brood::entity!(c)),
                5 => w.insert(brood::entity!(a, c)),
                6 => w.insert(brood::entity!(b, c)),
                _ => w.insert(brood::entity!(a, b, c)),
            };
            mine.push(id);
        }
        if k == 1 {
            for id in mine {
                w.remove(id);
            }
        } else {
            ids.extend(mine);
        }
    }
    (w, ids)
}

pub type Snap = (Vec<((usize, u64), Option<u64>, Option<u64>, Option<u64>)>, u64, u64);

pub fn snapshot(w: &mut W) -> Snap {
    use brood::query::{result, Views};
    use brood::Query;
    let mut rows = Vec::new();
    for result!(id, a, b, c) in w.query(Query::<Views!(entity::Identifier, Option<&A>, Option<&B>, Option<&C>)>::new()).iter {
        rows.push((id.verif_parts(), a.map(|x| x.0), b.map(|x| x.0), c.map(|x| x.0)));
    }
    rows.sort();
    // the third resource is folded into the second slot of the snapshot (snapshots are only compared for equality)
    (rows, w.get::<R0, _>().0, w.get::<R1, _>().0.wrapping_mul(1_000_003).wrapping_add(w.get::<R2, _>().0))
}

// ---------------------------------------------------------------------------------------------
// Declared access (reference model for C12) and oracles

#[derive(Clone, Debug)]
pub struct TaskDesc {
    pub label: &'static str,
    /// (object, writes): objects 0..3 = components A,B,C; 10,11,12 = resources R0,R1,R2
    pub access: Vec<(u8, bool)>,
    pub par: bool,
    /// components required by non-optional iterator views (bit mask)
    pub req: u8,
    /// filter: (0 none, 1 Has, 2 Not<Has>), component index
    pub filt: (u8, u8),
    /// components named by the entry views (bit mask)
    pub entry: u8,
}

impl TaskDesc {
    /// Does this task claim the table with component set `mask`?  (iterator views and filter match, or any
    /// entry-view component is present)
    pub fn claims_table(&self, mask: u8) -> bool {
        let f = match self.filt.0 {
            0 => true,
            1 => mask >> self.filt.1 & 1 == 1,
            _ => mask >> self.filt.1 & 1 == 0,
        };
        (mask & self.req == self.req && f) || (mask & self.entry != 0)
    }
    fn claim(&self, obj: u8) -> u8 {
        // 0 none, 1 immutable, 2 mutable
        let mut c = 0;
        for (o, w) in &self.access {
            if *o == obj {
                c = c.max(if *w { 2 } else { 1 });
            }
        }
        c
    }
}

fn merge_claim(a: u8, b: u8) -> Option<u8> {
    match (a, b) {
        (0, x) | (x, 0) => Some(x),
        (1, 1) => Some(1),
        _ => None,
    }
}

/// Reference model of the stage runner: static stages = greedy groups; at the end of each stage the tasks of
/// the next stage are started early, in order, when their resource claims and their per-table component claims
/// merge with everything accumulated so far (only if the running stage claimed at least one table).
pub fn model_nests(tasks: &[TaskDesc], groups: &[usize], tables: &[u8]) -> Vec<Vec<usize>> {
    let ngroups = groups.iter().max().map_or(0, |g| g + 1);
    let mut has_run = vec![false; tasks.len()];
    let mut nests = Vec::new();
    for k in 0..ngroups {
        let members: Vec<usize> = (0..tasks.len()).filter(|&t| groups[t] == k && !has_run[t]).collect();
        if members.is_empty() {
            continue;
        }
        let mut nest = members.clone();
        let mut borrowed: std::collections::BTreeMap<u8, [u8; 3]> = Default::default();
        let mut res = [0u8; 3];
        for &t in &members {
            for &m in tables {
                if tasks[t].claims_table(m) {
                    let e = borrowed.entry(m).or_insert([0; 3]);
                    for c in 0..3 {
                        e[c] = merge_claim(e[c], tasks[t].claim(c as u8)).unwrap_or(2);
                    }
                }
            }
            for r in 0..3 {
                res[r] = merge_claim(res[r], tasks[t].claim(10 + r as u8)).unwrap_or(2);
            }
        }
        if !borrowed.is_empty() {
            for t in (0..tasks.len()).filter(|&t| groups[t] == k + 1) {
                let mut r2 = res;
                let mut ok = true;
                for r in 0..3 {
                    match merge_claim(r2[r], tasks[t].claim(10 + r as u8)) {
                        Some(x) => r2[r] = x,
                        None => ok = false,
                    }
                }
                if !ok {
                    continue;
                }
                // the merged resource claims are passed on even when the table claims are refused (stage.rs)
                res = r2;
                let mut b2 = borrowed.clone();
                for &m in tables {
                    if tasks[t].claims_table(m) {
                        let e = b2.entry(m).or_insert([0; 3]);
                        for c in 0..3 {
                            match merge_claim(e[c], tasks[t].claim(c as u8)) {
                                Some(x) => e[c] = x,
                                None => ok = false,
                            }
                        }
                    }
                }
                if ok {
                    borrowed = b2;
                    nest.push(t);
                    has_run[t] = true;
                }
            }
        }
        nests.push(nest);
    }
    nests
}

pub fn greedy_groups(tasks: &[TaskDesc]) -> Vec<usize> {
    let conflict = |x: &TaskDesc, y: &TaskDesc| x.access.iter().any(|(o, w)| y.access.iter().any(|(o2, w2)| o == o2 && (*w || *w2)));
    let mut group_of = Vec::new();
    let mut cur: Vec<usize> = Vec::new();
    let mut g = 0usize;
    for (i, t) in tasks.iter().enumerate() {
        if cur.iter().any(|&j| conflict(&tasks[j], t)) {
            g += 1;
            cur.clear();
        }
        cur.push(i);
        group_of.push(g);
    }
    group_of
}

#[derive(Clone, Debug)]
pub struct Finding {
    pub prop: &'static str,
    pub key: String,
    pub detail: String,
}

#[derive(Default, Debug)]
pub struct SchedStats {
    pub executions: u64,
    pub orders_max: u64,
    pub worlds: u64,
    pub nests_total: u64,
    pub nest_sizes: std::collections::BTreeMap<usize, u64>,
    pub distinct_outcomes: u64,
    pub addon_runs: u64,
    pub overlap_pairs_checked: u64,
    pub overlap_pairs_with_shared_reads: u64,
}

fn overlaps(x: &Foot, y: &Foot) -> bool {
    x.addr < y.addr + y.size && y.addr < x.addr + x.size
}

pub struct SchedRun<'s> {
    pub name: &'s str,
    pub tasks: Vec<TaskDesc>,
}

/// Explores one compiled schedule over the world catalogue and every admissible task order.
/// `run_sched(world, ids) -> task snapshots` runs the schedule through `run_schedule`;
/// `run_seq(world, ids) -> task snapshots` runs the same systems one by one in declared order.
pub fn explore_schedule(
    run: &SchedRun,
    worlds: &[WorldSpec],
    salts: &[usize],
    run_sched: &(dyn Fn(&mut W, &[entity::Identifier]) -> Vec<TaskSnap> + Sync),
    run_seq: &(dyn Fn(&mut W, &[entity::Identifier]) -> Vec<TaskSnap> + Sync),
    findings: &mut Vec<(Finding, String)>,
    stats: &mut SchedStats,
) {
    let groups = greedy_groups(&run.tasks);
    let ntasks = run.tasks.len();
    let mut push = |f: Finding, replay: String, findings: &mut Vec<(Finding, String)>| {
        if !findings.iter().any(|(g, _)| g.prop == f.prop && g.key == f.key) {
            findings.push((f, replay));
        }
    };
    for spec in worlds {
        stats.worlds += 1;
        for &salt in salts {
            // sequential reference
            arena::begin(salt);
            let (ref_snap, ref_tasks) = {
                let (mut w, ids) = build_world(spec);
                let t = run_seq(&mut w, &ids);
                let s = snapshot(&mut w);
                (arena::with_system(|| s.clone()), arena::with_system(|| t.iter().map(|x| (x.runs, x.fold)).collect::<Vec<_>>()))
            };
            arena_end_checked();
            let mut prefix: Vec<(usize, usize)> = Vec::new();
            let mut orders = 0u64;
            let mut outcomes: Vec<Snap> = Vec::new();
            loop {
                arena::begin(salt);
                let (trace, snap, tasks) = {
                    let (mut w, ids) = build_world(spec);
                    if DEBUG.load(Ordering::Relaxed) {
                        arena::with_system(|| {
                            let d = w.verif_dump();
                            println!("DEBUG built {:?} dump {:?}", spec.arch, d.archetypes);
                        });
                    }
                    let mut tasks = Vec::new();
                    let tr = run_controlled(&prefix, || {
                        tasks = run_sched(&mut w, &ids);
                    });
                    let s = snapshot(&mut w);
                    if DEBUG.load(Ordering::Relaxed) {
                        arena::with_system(|| println!("DEBUG after {:?} prefix {:?} trace {:?} started {:?} snap {:?}\n    foot {:?}", spec.arch, prefix, tr.trace, tr.started, s, tasks.iter().map(|t| t.foot.clone()).collect::<Vec<_>>()));
                    }
                    arena::with_system(|| (tr.clone(), s.clone(), tasks.clone()))
                };
                arena_end_checked();
                stats.executions += 1;
                orders += 1;
                let pairs = |v: &[(usize, usize)]| format!("[{}]", v.iter().map(|(a, b)| format!("[{},{}]", a, b)).collect::<Vec<_>>().join(","));
                let replay = format!(
                    "{{\"engine\":\"sched\",\"schedule\":\"{}\",\"world\":{:?},\"world_desc\":\"{}\",\"salt\":{},\"choices\":{},\"start_order\":{}}}",
                    run.name, spec.arch, spec.describe(), salt, pairs(&trace.trace), pairs(&trace.started)
                );
                if trace.diverged {
                    push(Finding { prop: "MACHINERY", key: "replay-divergence".into(), detail: format!("{}", run.name) }, replay.clone(), findings);
                }
                // --- C07: every task exactly once, final state equals the sequential reference
                for t in &tasks {
                    if t.runs != 1 {
                        push(Finding { prop: "C07", key: format!("task-ran-{}-times", t.runs.min(2)), detail: format!("{}: task {} ({}) ran {} times", run.name, t.idx, run.tasks[t.idx].label, t.runs) }, replay.clone(), findings);
                    }
                }
                if snap != ref_snap {
                    push(Finding { prop: "C07", key: "final-world-differs-from-sequential".into(), detail: format!("{} on world [{}]: start order {:?}; got {:?} want {:?}", run.name, spec.describe(), trace.started, snap, ref_snap) }, replay.clone(), findings);
                }
                let got: Vec<(u32, u64)> = tasks.iter().map(|x| (x.runs, x.fold)).collect();
                if got != ref_tasks {
                    push(Finding { prop: "C07", key: "system-state-differs-from-sequential".into(), detail: format!("{} on world [{}]: start order {:?}", run.name, spec.describe(), trace.started) }, replay.clone(), findings);
                }
                if !outcomes.contains(&snap) {
                    outcomes.push(snap.clone());
                }
                // --- C08: tasks of one nest must have non-conflicting footprints
                let mut nests: std::collections::BTreeMap<usize, Vec<usize>> = Default::default();
                for &(idx, nest) in &trace.started {
                    nests.entry(nest).or_default().push(idx);
                }
                for (_, members) in &nests {
                    *stats.nest_sizes.entry(members.len()).or_default() += 1;
                    stats.nests_total += 1;
                    for i in 0..members.len() {
                        for j in i + 1..members.len() {
                            stats.overlap_pairs_checked += 1;
                            let (x, y) = (&tasks[members[i]], &tasks[members[j]]);
                            let mut shared = false;
                            let mut bad: Option<(Foot, Foot)> = None;
                            for fx in &x.foot {
                                for fy in &y.foot {
                                    if overlaps(fx, fy) {
                                        shared = true;
                                        if fx.mutable || fy.mutable {
                                            bad = Some((*fx, *fy));
                                        }
                                    }
                                }
                            }
                            if shared {
                                stats.overlap_pairs_with_shared_reads += 1;
                            }
                            if let Some((fx, fy)) = bad {
                                push(
                                    Finding {
                                        prop: "C08",
                                        key: "conflicting-tasks-may-overlap".into(),
                                        detail: format!(
                                            "{} on world [{}]: tasks {} ({}) and {} ({}) are in one fork/join nest and both reach {:#x} ({} / {})",
                                            run.name, spec.describe(), x.idx, run.tasks[x.idx].label, y.idx, run.tasks[y.idx].label, fx.addr,
                                            if fx.mutable { "mutably" } else { "immutably" }, if fy.mutable { "mutably" } else { "immutably" }
                                        ),
                                    },
                                    replay.clone(),
                                    findings,
                                );
                            }
                        }
                    }
                }
                // --- C12: placement vs greedy reference
                let nest_of: std::collections::BTreeMap<usize, usize> = trace.started.iter().map(|&(i, n)| (i, n)).collect();
                let mut distinct_nests: Vec<usize> = nest_of.values().copied().collect();
                distinct_nests.sort();
                distinct_nests.dedup();
                let ord = |n: usize| distinct_nests.iter().position(|&x| x == n).unwrap();
                let inert = spec.arch.iter().all(|&k| k == 0);
                for i in 0..ntasks {
                    let Some(&n) = nest_of.get(&i) else { continue };
                    if ord(n) > groups[i] {
                        push(Finding { prop: "C12", key: "task-runs-later-than-greedy-group".into(), detail: format!("{} on world [{}]: task {} ({}) ran in nest {} but greedy group is {}", run.name, spec.describe(), i, run.tasks[i].label, ord(n), groups[i]) }, replay.clone(), findings);
                    }
                    if ord(n) < groups[i] {
                        stats.addon_runs += 1;
                    }
                    if inert && ord(n) != groups[i] {
                        push(Finding { prop: "C12", key: "static-stage-differs-from-greedy".into(), detail: format!("{} on the empty world: task {} ({}) ran in nest {} but greedy group is {}", run.name, i, run.tasks[i].label, ord(n), groups[i]) }, replay.clone(), findings);
                    }
                }
                // --- C12: conformance with the reference model of the stage runner on every world: the partition of
                // the tasks into fork/join nests (static stages + tasks started early) must be the predicted one
                let tables: Vec<u8> = (0..8u8).filter(|&m| spec.arch[m as usize] != 0).collect();
                let expected = model_nests(&run.tasks, &groups, &tables);
                let mut observed: Vec<Vec<usize>> = distinct_nests.iter().map(|&n| { let mut v: Vec<usize> = nest_of.iter().filter(|(_, &x)| x == n).map(|(&t, _)| t).collect(); v.sort(); v }).collect();
                let mut exp_sorted: Vec<Vec<usize>> = expected.iter().map(|v| { let mut v = v.clone(); v.sort(); v }).collect();
                if observed != exp_sorted {
                    // which direction?  a task placed later than predicted is a lost opportunity (C12); a task placed
                    // earlier than predicted is judged by C07/C08 on the same run
                    let ord_of = |nests: &Vec<Vec<usize>>, t: usize| nests.iter().position(|v| v.contains(&t));
                    let later: Vec<usize> = (0..ntasks).filter(|&t| ord_of(&observed, t) > ord_of(&exp_sorted, t)).collect();
                    let split: bool = exp_sorted.iter().any(|g| g.len() > 1 && !observed.iter().any(|o| g.iter().all(|t| o.contains(t))));
                    if !later.is_empty() || split {
                        push(Finding { prop: "C12", key: "tasks-not-placed-where-the-reference-scheduler-places-them".into(), detail: format!("{} on world [{}]: nests observed {:?}, reference model {:?}", run.name, spec.describe(), observed, exp_sorted) }, replay.clone(), findings);
                    }
                }
                observed.clear();
                exp_sorted.clear();
                // tasks of one nest must really be allowed to overlap: their fork/join intervals intersect pairwise
                for (i, &(ta, fa, ja)) in trace.intervals.iter().enumerate() {
                    for &(tb, fb, jb) in trace.intervals.iter().skip(i + 1) {
                        if nest_of.get(&ta) == nest_of.get(&tb) && groups[ta] == groups[tb] && !(fa < jb && fb < ja) {
                            push(Finding { prop: "C12", key: "tasks-of-one-stage-are-serialised".into(), detail: format!("{} on world [{}]: tasks {} ({}) and {} ({}) are forked and joined one after the other (intervals {:?} and {:?})", run.name, spec.describe(), ta, run.tasks[ta].label, tb, run.tasks[tb].label, (fa, ja), (fb, jb)) }, replay.clone(), findings);
                        }
                    }
                }
                if nest_of.len() != ntasks {
                    push(Finding { prop: "C12", key: "schedule-did-not-run-every-task".into(), detail: format!("{}: {} of {} tasks started", run.name, nest_of.len(), ntasks) }, replay.clone(), findings);
                }
                match next_prefix(&trace.trace) {
                    Some(p) => prefix = p,
                    None => break,
                }
                if orders > 200_000 {
                    push(Finding { prop: "MACHINERY", key: "order-cap".into(), detail: run.name.to_string() }, replay, findings);
                    break;
                }
            }
            stats.orders_max = stats.orders_max.max(orders);
            stats.distinct_outcomes = stats.distinct_outcomes.max(outcomes.len() as u64);
        }
    }
}

/// Real-rayon smoke run (labelled sampling, not part of any verdict except termination for C12).
pub fn smoke(run_sched: &(dyn Fn(&mut W, &[entity::Identifier]) -> Vec<TaskSnap> + Sync), threads: usize, spec: &WorldSpec) -> bool {
    let pool = rayon::ThreadPoolBuilder::new().num_threads(threads).build().unwrap();
    pool.install(|| {
        let (mut w, ids) = build_world(spec);
        let mut ok = true;
        run_uncontrolled(|| {
            let t = run_sched(&mut w, &ids);
            ok = t.iter().all(|x| x.runs == 1);
        });
        ok
    })
}

// ---------------------------------------------------------------------------------------------
// Shard driver

pub struct ShardCtx {
    pub worlds: Vec<WorldSpec>,
    pub salts: Vec<usize>,
    pub findings: Vec<(Finding, String)>,
    pub stats: SchedStats,
    pub smoke_threads: Vec<usize>,
    pub smoke_runs: u64,
    pub smoke_failures: u64,
    pub replay: Option<ReplaySpec>,
}

#[derive(Clone, Debug)]
pub struct ReplaySpec {
    pub world: [u8; 8],
    pub salt: usize,
    pub choices: Vec<(usize, usize)>,
}

impl ShardCtx {
    pub fn explore(
        &mut self,
        desc: &SchedRun,
        run_sched: &(dyn Fn(&mut W, &[entity::Identifier]) -> Vec<TaskSnap> + Sync),
        run_seq: &(dyn Fn(&mut W, &[entity::Identifier]) -> Vec<TaskSnap> + Sync),
    ) {
        if let Some(r) = self.replay.clone() {
            // plain replay of one recorded execution, no explorer loop
            let spec = WorldSpec { arch: r.world };
            arena::begin(r.salt);
            {
                let (mut w, ids) = build_world(&spec);
                let reft = run_seq(&mut w, &ids);
                let refsnap = snapshot(&mut w);
                let (mut w2, ids2) = build_world(&spec);
                let mut tasks = Vec::new();
                let tr = run_controlled(&r.choices, || tasks = run_sched(&mut w2, &ids2));
                let snap = snapshot(&mut w2);
                arena::with_system(|| {
                    println!("schedule: {}", desc.name);
                    println!("world: [{}] salt {}", spec.describe(), r.salt);
                    println!("task start order (task, nest): {:?}", tr.started);
                    println!("final world under run_schedule : {:?}", snap);
                    println!("final world run one by one     : {:?}", refsnap);
                    for (t, rt) in tasks.iter().zip(reft.iter()) {
                        println!("task {} ({}): runs {} fold {:#x} | sequential: runs {} fold {:#x}", t.idx, desc.tasks[t.idx].label, t.runs, t.fold, rt.runs, rt.fold);
                    }
                });
            }
            arena_end_checked();
            let worlds = vec![spec];
            let salts = vec![r.salt];
            explore_schedule(desc, &worlds, &salts, run_sched, run_seq, &mut self.findings, &mut self.stats);
            return;
        }
        let before = self.stats.executions;
        let t0 = std::time::Instant::now();
        explore_schedule(desc, &self.worlds, &self.salts, run_sched, run_seq, &mut self.findings, &mut self.stats);
        // real-rayon smoke runs (sampling; only termination and the run count feed C12, mismatches are notes)
        for &threads in &self.smoke_threads.clone() {
            let pool = rayon::ThreadPoolBuilder::new().num_threads(threads).build().unwrap();
            for wi in [0usize, 26, 40, 53, 80, 67] {
                let Some(spec) = self.worlds.get(wi) else { continue };
                let (mut w, ids) = build_world(spec);
                let reft = run_seq(&mut w, &ids);
                let refsnap = snapshot(&mut w);
                let (snap, tasks) = pool.install(|| {
                    let (mut w2, ids2) = build_world(spec);
                    let t = run_sched(&mut w2, &ids2);
                    (snapshot(&mut w2), t)
                });
                self.smoke_runs += 1;
                if tasks.iter().any(|t| t.runs != 1) {
                    self.findings.push((Finding { prop: "C12", key: "real-pool-run-count".into(), detail: format!("{} on {} threads: run counts {:?}", desc.name, threads, tasks.iter().map(|t| t.runs).collect::<Vec<_>>()) }, String::from("{}")));
                }
                if snap != refsnap || tasks.iter().zip(reft.iter()).any(|(a, b)| a.fold != b.fold) {
                    self.smoke_failures += 1;
                }
            }
        }
        let groups = greedy_groups(&desc.tasks);
        println!(
            "SCHED {{\"name\":\"{}\",\"tasks\":{},\"greedy_groups\":{:?},\"executions\":{},\"ms\":{}}}",
            desc.name, desc.tasks.len(), groups, self.stats.executions - before, t0.elapsed().as_millis()
        );
    }
}

fn parse_replay(path: &str) -> (String, ReplaySpec) {
    let j: serde_json::Value = serde_json::from_str(&std::fs::read_to_string(path).expect("replay file")).expect("json");
    let world: Vec<u8> = j["world"].as_array().unwrap().iter().map(|x| x.as_u64().unwrap() as u8).collect();
    let mut arch = [0u8; 8];
    arch.copy_from_slice(&world);
    let choices = j["choices"].as_array().unwrap().iter().map(|p| (p[0].as_u64().unwrap() as usize, p[1].as_u64().unwrap() as usize)).collect();
    (j["schedule"].as_str().unwrap().to_string(), ReplaySpec { world: arch, salt: j["salt"].as_u64().unwrap() as usize, choices })
}

pub static DEBUG: std::sync::atomic::AtomicBool = std::sync::atomic::AtomicBool::new(false);
thread_local! { static ONLY: RefCell<Option<String>> = const { RefCell::new(None) }; }

pub fn shard_main(entries: &[(&str, &str, fn(&mut ShardCtx))]) {
    let args: Vec<String> = std::env::args().collect();
    let mut replay: Option<(String, ReplaySpec)> = None;
    let mut list = false;
    let mut smoke_on = true;
    let mut i = 1;
    while i < args.len() {
        match args[i].as_str() {
            "--replay" => {
                replay = Some(parse_replay(&args[i + 1]));
                i += 1;
            }
            "--list" => list = true,
            "--no-smoke" => smoke_on = false,
            x => panic!("unknown argument {x}"),
        }
        i += 1;
    }
    if list {
        for (n, p, _) in entries {
            println!("{p}\t{n}");
        }
        return;
    }
    mccore::util::install_crash_handler();
    let pool = rayon::ThreadPoolBuilder::new().num_threads(1).build().unwrap();
    let mut ctx = ShardCtx {
        worlds: catalogue(true),
        salts: vec![0, 1],
        findings: Vec::new(),
        stats: SchedStats::default(),
        smoke_threads: if smoke_on { vec![1, 2, 4] } else { vec![] },
        smoke_runs: 0,
        smoke_failures: 0,
        replay: None,
    };
    DEBUG.store(std::env::var("SCHED_DEBUG").is_ok(), Ordering::Relaxed);
    if let Ok(k) = std::env::var("ARENA_TRACE_SEQ") {
        arena::TRACE_SEQ.store(k.parse().unwrap(), Ordering::Relaxed);
    }
    if let Ok(r) = std::env::var("SCHED_WORLDS") {
        let (a, b) = r.split_once('-').unwrap();
        let (a, b): (usize, usize) = (a.parse().unwrap(), b.parse().unwrap());
        ctx.worlds = ctx.worlds[a..=b].to_vec();
    }
    if let Ok(r) = std::env::var("SCHED_ONLY") {
        ONLY.with(|o| *o.borrow_mut() = Some(r));
    }
    pool.install(|| {
        arena::init_thread(0);
        install_handler();
        for (name, _pool, f) in entries {
            if let Some((n, r)) = &replay {
                if n != name {
                    continue;
                }
                ctx.replay = Some(r.clone());
            }
            if let Ok(only) = std::env::var("SCHED_ONLY") {
                if only != *name {
                    continue;
                }
            }
            mccore::util::set_crash_descriptor(&format!("engine=sched schedule={}", name));
            f(&mut ctx);
        }
    });
    for (f, replay) in &ctx.findings {
        println!("FOUND property={} key={} :: {} :: REPLAY {}", f.prop, f.key.replace(' ', "_"), f.detail, replay);
    }
    let s = &ctx.stats;
    println!("SMOKE {{\"runs\":{},\"mismatches\":{}}}", ctx.smoke_runs, ctx.smoke_failures);
    println!(
        "STATS {{\"executions\":{},\"worlds\":{},\"orders_max\":{},\"nests\":{},\"nest_sizes\":{:?},\"distinct_outcomes_max\":{},\"addon_task_runs\":{},\"overlap_pairs_checked\":{},\"overlap_pairs_sharing_reads\":{}}}",
        s.executions, s.worlds, s.orders_max, s.nests_total, s.nest_sizes, s.distinct_outcomes, s.addon_runs, s.overlap_pairs_checked, s.overlap_pairs_with_shared_reads
    );
}
