//! One wide-registry harness instance (separate crate so the instances compile in parallel).
mcwide::wide_harness!(w10, 10, [T0 = 0, T1 = 1, T2 = 2, T3 = 3, T4 = 4, T5 = 5, T6 = 6, T7 = 7, T8 = 8, T9 = 9],
    positions = [0, 3, 8, 9],
    shapes = [[T0], [T9], [T0, T3, T9], [T7, T8]]);
pub use w10::*;
