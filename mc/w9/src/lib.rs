//! One wide-registry harness instance (separate crate so the instances compile in parallel): nine components, i.e. an
//! identifier whose second byte holds a single bit.
mcwide::wide_harness!(w9, 9, [T0 = 0, T1 = 1, T2 = 2, T3 = 3, T4 = 4, T5 = 5, T6 = 6, T7 = 7, T8 = 8],
    positions = [0, 3, 7, 8],
    shapes = [[T0], [T8], [T0, T3, T8], [T7, T8]]);
pub use w9::*;
