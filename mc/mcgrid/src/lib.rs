//! E2: evaluation of generated query instantiations (views x order x filter) on every world of a
//! catalogue against the reference model.  The generated code only supplies closures that run the
//! instantiated query and map each result tuple to a `Row`; everything else lives here.

use mccore::arena;
use mccore::comp::{self, Comp};
use mccore::s4::*;
use std::collections::BTreeMap;

#[derive(Clone, Copy, Debug, PartialEq, Eq)]
pub enum Got {
    NotViewed,
    Absent,
    /// (value before this access, serial, address, handed out mutably)
    Val(u32, u64, usize, bool),
}

#[derive(Clone, Debug, PartialEq, Eq)]
pub struct Row {
    pub id: Option<Id>,
    pub c: [Got; NC],
}

impl Row {
    pub fn new() -> Row {
        Row { id: None, c: [Got::NotViewed; NC] }
    }
}

pub const WRITE_DELTA: u32 = 1_000_000;

pub fn gr<C: Comp>(x: &C) -> Got {
    let (v, s) = x.read();
    Got::Val(v, s, x as *const C as usize, false)
}
pub fn gw<C: Comp>(x: &mut C) -> Got {
    let (v, s) = x.read();
    let addr = x as *mut C as usize;
    if !C::IS_ZST {
        x.set(v.wrapping_add(WRITE_DELTA));
    }
    Got::Val(v, s, addr, true)
}
pub fn go<C: Comp>(x: Option<&C>) -> Got {
    match x {
        Some(x) => gr(x),
        None => Got::Absent,
    }
}
pub fn gp<C: Comp>(x: Option<&mut C>) -> Got {
    match x {
        Some(x) => gw(x),
        None => Got::Absent,
    }
}

#[derive(Clone, Debug)]
pub enum FExpr {
    None,
    Has(usize),
    Not(Box<FExpr>),
    And(Box<FExpr>, Box<FExpr>),
    Or(Box<FExpr>, Box<FExpr>),
}

impl FExpr {
    pub fn eval(&self, mask: u8) -> bool {
        match self {
            FExpr::None => true,
            FExpr::Has(c) => mask >> c & 1 == 1,
            FExpr::Not(f) => !f.eval(mask),
            FExpr::And(a, b) => a.eval(mask) && b.eval(mask),
            FExpr::Or(a, b) => a.eval(mask) || b.eval(mask),
        }
    }
}

/// view kinds: 0 not viewed, 1 `&`, 2 `&mut`, 3 `Option<&>`, 4 `Option<&mut>`
#[derive(Clone, Debug)]
pub struct QDesc {
    pub label: &'static str,
    pub kinds: [u8; NC],
    pub with_id: bool,
    pub filter: FExpr,
}

impl QDesc {
    pub fn matches(&self, mask: u8) -> bool {
        for c in 0..NC {
            if (self.kinds[c] == 1 || self.kinds[c] == 2) && mask >> c & 1 == 0 {
                return false;
            }
        }
        self.filter.eval(mask)
    }
    pub fn writes(&self, c: usize) -> bool {
        self.kinds[c] == 2 || self.kinds[c] == 4
    }
    /// Expected result rows (keyed by identifier) for a model.
    pub fn expected(&self, m: &Model) -> BTreeMap<Id, [Option<Option<u32>>; NC]> {
        let mut out = BTreeMap::new();
        for (id, row) in &m.ents {
            if !self.matches(Model::mask_of(row)) {
                continue;
            }
            let mut r = [None; NC];
            for c in 0..NC {
                if self.kinds[c] != 0 {
                    r[c] = Some(row[c]);
                }
            }
            out.insert(*id, r);
        }
        out
    }
}

#[derive(Clone, Copy, Debug, PartialEq, Eq)]
pub enum Traverse {
    /// `next()` to exhaustion, `size_hint` checked before every call
    Next,
    /// one `fold`
    Fold,
    /// k x `next()`, then `fold`
    Mixed(usize),
    /// `nth(k)` until it answers `None`
    Nth(usize),
    /// `skip(k)` then `fold`
    Skip(usize),
    /// `step_by(k)` then `next()` to exhaustion
    StepBy(usize),
    /// `last()`
    Last,
    /// `count()` (the count is reported as the single size-hint entry)
    Count,
    /// `by_ref().take(k)` collected, then the rest through `next()`
    TakeThenNext(usize),
}

pub const DERIVED_MODES: [Traverse; 9] = [Traverse::Nth(1), Traverse::Nth(2), Traverse::Skip(1), Traverse::Skip(2), Traverse::StepBy(2), Traverse::StepBy(3), Traverse::Last, Traverse::Count, Traverse::TakeThenNext(1)];

impl Traverse {
    /// Positions of a full `next()` traversal of `n` results that this derived mode returns, in order.
    pub fn positions(self, n: usize) -> Vec<usize> {
        match self {
            Traverse::Nth(k) => (0..n).filter(|i| (i + 1) % (k + 1) == 0).collect(),
            Traverse::Skip(k) => (k.min(n)..n).collect(),
            Traverse::StepBy(k) => (0..n).step_by(k).collect(),
            Traverse::Last => if n == 0 { vec![] } else { vec![n - 1] },
            Traverse::Count => vec![],
            _ => (0..n).collect(),
        }
    }
    pub fn is_derived(self) -> bool {
        !matches!(self, Traverse::Next | Traverse::Fold | Traverse::Mixed(_))
    }
}

/// Drives a sequential query iterator in the requested mode.  The iterator is taken by value so that its
/// own `fold` override is exercised (`<&mut I>::fold` would fall back to `next()`).
pub fn drive<I: Iterator>(mut it: I, mode: Traverse, map: &mut dyn FnMut(I::Item) -> Row, sink: &mut Vec<Row>, hints: &mut Vec<(usize, Option<usize>)>) {
    match mode {
        Traverse::Next => loop {
            hints.push(it.size_hint());
            match it.next() {
                Some(x) => sink.push(map(x)),
                None => break,
            }
        },
        Traverse::Fold => {
            hints.push(it.size_hint());
            it.fold((), |(), x| sink.push(map(x)));
        }
        Traverse::Mixed(k) => {
            for _ in 0..k {
                hints.push(it.size_hint());
                match it.next() {
                    Some(x) => sink.push(map(x)),
                    None => return,
                }
            }
            hints.push(it.size_hint());
            it.fold((), |(), x| sink.push(map(x)));
        }
        Traverse::Nth(k) => {
            while let Some(x) = it.nth(k) {
                sink.push(map(x));
            }
            // fused: stays `None`
            if it.next().is_some() {
                hints.push((usize::MAX, None));
            }
        }
        Traverse::Skip(k) => it.skip(k).fold((), |(), x| sink.push(map(x))),
        Traverse::StepBy(k) => {
            let mut s = it.step_by(k);
            while let Some(x) = s.next() {
                sink.push(map(x));
            }
        }
        Traverse::Last => {
            if let Some(x) = it.last() {
                sink.push(map(x));
            }
        }
        Traverse::Count => hints.push((it.count(), None)),
        Traverse::TakeThenNext(k) => {
            let first: Vec<I::Item> = it.by_ref().take(k).collect();
            for x in first {
                sink.push(map(x));
            }
            while let Some(x) = it.next() {
                sink.push(map(x));
            }
        }
    }
}

#[derive(Default)]
pub struct GridStats {
    pub instantiations: u64,
    pub evaluations: u64,
    pub rows_checked: u64,
    pub nonempty_results: u64,
    pub writes_checked: u64,
    pub entry_queries: u64,
    pub par_evaluations: u64,
}

pub struct GridCtx {
    pub ops: Vec<Op>,
    pub worlds: Vec<Vec<u8>>,
    pub found: Vec<(String, String, String, String)>, // (prop, key, detail, replay)
    pub stats: GridStats,
    pub only_world: Option<usize>,
}

impl GridCtx {
    fn fail(&mut self, prop: &str, key: String, detail: String, label: &str, wi: usize) {
        if self.found.iter().any(|f| f.0 == prop && f.1 == key) {
            return;
        }
        let replay = format!("{{\"engine\":\"grid\",\"case\":{},\"world_index\":{},\"world_history\":{:?}}}", mccore::util::json_str(label), wi, self.worlds[wi]);
        self.found.push((prop.to_string(), key, detail, replay));
    }
}

type SeqFn<'f> = &'f dyn Fn(&mut W, Traverse, &mut Vec<Row>, &mut Vec<(usize, Option<usize>)>);
type EntFn<'f> = &'f dyn Fn(&mut W, Id) -> Option<Row>;

fn check_rows(desc: &QDesc, rows: &[Row], m: &Model, what: &str) -> Option<(String, String)> {
    let exp = desc.expected(m);
    if rows.len() != exp.len() {
        return Some((format!("result-count {}", what), format!("{} results, model expects {}", rows.len(), exp.len())));
    }
    let vals = |r: &Row| -> Vec<Option<Option<u32>>> {
        r.c.iter().map(|g| match g {
            Got::NotViewed => None,
            Got::Absent => Some(None),
            Got::Val(v, ..) => Some(Some(*v)),
        }).collect()
    };
    if desc.with_id {
        // every result carries its entity's own identifier: compare entity by entity
        let mut seen: BTreeMap<Id, usize> = BTreeMap::new();
        for r in rows {
            let Some(id) = r.id else { return Some((format!("missing-identifier {}", what), String::new())) };
            *seen.entry(id).or_default() += 1;
            match exp.get(&id) {
                None => return Some((format!("nonmatching-entity-returned {}", what), format!("{:?} returned but the model does not select it", id))),
                Some(e) => {
                    if e.to_vec() != vals(r) {
                        return Some((format!("wrong-values {}", what), format!("{:?}: got {:?}, model {:?}", id, vals(r), e)));
                    }
                }
            }
        }
        if let Some((id, n)) = seen.iter().find(|(_, n)| **n > 1) {
            return Some((format!("entity-returned-twice {}", what), format!("{:?} x{}", id, n)));
        }
    } else {
        // no identifier view: values are unique per (entity, component), so multiset equality of the value
        // tuples pins both the entities and their values
        let mut a: Vec<_> = rows.iter().map(vals).collect();
        let mut b: Vec<_> = exp.values().map(|e| e.to_vec()).collect();
        a.sort();
        b.sort();
        if a != b {
            let i = a.iter().zip(b.iter()).position(|(x, y)| x != y).unwrap_or(0);
            return Some((format!("wrong-values {}", what), format!("result multiset differs from the model: got {:?}, model {:?}", a.get(i), b.get(i))));
        }
    }
    None
}

/// One instantiation (sequential query + World::entry query), all catalogue worlds, three traversals.
pub fn run_query_case(ctx: &mut GridCtx, desc: &QDesc, seq: SeqFn, ent: EntFn) {
    ctx.stats.instantiations += 1;
    let label = desc.label;
    for wi in 0..ctx.worlds.len() {
        if ctx.only_world.map_or(false, |o| o != wi) {
            continue;
        }
        let hist = ctx.worlds[wi].clone();
        // (identifier, values) of the next() traversal, kept outside the arena for the derived modes: every mode
        // starts a fresh arena epoch and rebuilds the world first, so addresses, hence table order, are identical
        type Key = (Option<Id>, Vec<Option<Option<u32>>>);
        let key = |r: &Row| -> Key { (r.id, r.c.iter().map(|g| match g { Got::Val(v, ..) => Some(Some(*v)), Got::Absent => Some(None), Got::NotViewed => None }).collect::<Vec<_>>()) };
        let mut base: Vec<Key> = Vec::new();
        for mode in [Traverse::Next, Traverse::Fold, Traverse::Mixed(1), Traverse::Mixed(2)].into_iter().chain(DERIVED_MODES) {
            arena::begin(0);
            comp::ledger_begin();
            let mut fails: Vec<(String, String)> = Vec::new();
            if mode.is_derived() {
                let mut ex = build_exec(&ctx.ops, &hist);
                let mut rows = Vec::new();
                let mut hints = Vec::new();
                seq(&mut ex.w, mode, &mut rows, &mut hints);
                ctx.stats.evaluations += 1;
                ctx.stats.rows_checked += rows.len() as u64;
                if mode == Traverse::Count {
                    if hints.first().map(|h| h.0) != Some(base.len()) {
                        fails.push(("iterator-count".into(), format!("count() = {:?}, the next() traversal yields {}", hints.first().map(|h| h.0), base.len())));
                    }
                } else {
                    if hints.iter().any(|h| h.0 == usize::MAX) {
                        fails.push(("iterator-not-fused".into(), String::new()));
                    }
                    let want: Vec<usize> = mode.positions(base.len());
                    let got: Vec<Key> = rows.iter().map(key).collect();
                    let exp: Vec<&Key> = want.iter().map(|i| &base[*i]).collect();
                    if got.len() != exp.len() || got.iter().zip(exp.iter()).any(|(a, b)| a != *b) {
                        fails.push(("iterator-method-disagrees-with-next-traversal".into(), format!("got {:?}, positions {:?} of the next() traversal are {:?}", got, want, exp)));
                    }
                    // writes through the returned rows land on exactly those entities (rows identify their entity
                    // through the unique pre-write values)
                    let mut m2 = ex.m.clone();
                    for (_id, row) in m2.ents.iter_mut() {
                        if !desc.matches(Model::mask_of(row)) {
                            continue;
                        }
                        let mine: Vec<Option<Option<u32>>> = (0..NC).map(|c| if desc.kinds[c] != 0 { Some(row[c]) } else { None }).collect();
                        let any_val = mine.iter().any(|x| matches!(x, Some(Some(_))));
                        let returned = got.iter().any(|(gid, gv)| if desc.with_id { *gid == Some(*_id) } else { *gv == mine });
                        if !any_val && !desc.with_id {
                            continue;
                        }
                        if returned {
                            for c in 0..NC {
                                if desc.writes(c) && c != 1 {
                                    if let Some(v) = row[c].as_mut() {
                                        *v = v.wrapping_add(WRITE_DELTA);
                                    }
                                }
                            }
                        }
                    }
                    let after = snap_vals(&snapshot(&mut ex.w));
                    if after != model_vals(&m2) {
                        fails.push(("iterator-method-writes-misplaced".into(), format!("world {:?} model {:?}", after, model_vals(&m2))));
                    }
                }
                let errs = comp::with_ledger(|l| l.errors.clone()).unwrap_or_default();
                if !errs.is_empty() {
                    fails.push(("bad-value-observed".into(), format!("{:?}", errs)));
                }
            } else {
                let mut ex = build_exec(&ctx.ops, &hist);
                let mut rows = Vec::new();
                let mut hints = Vec::new();
                seq(&mut ex.w, mode, &mut rows, &mut hints);
                ctx.stats.evaluations += 1;
                if mode == Traverse::Next {
                    base = arena::with_system(|| rows.iter().map(key).collect());
                }
                ctx.stats.rows_checked += rows.len() as u64;
                ctx.stats.nonempty_results += (!rows.is_empty()) as u64;
                if let Some(f) = check_rows(desc, &rows, &ex.m, "query") {
                    fails.push(f);
                }
                // size_hint brackets the true remaining count before every call
                let total = rows.len();
                for (k, (lo, hi)) in hints.iter().enumerate() {
                    let consumed = match mode {
                        Traverse::Fold => 0,
                        _ => k.min(total),
                    };
                    let remaining = total - consumed;
                    if *lo > remaining || hi.map_or(false, |h| h < remaining) {
                        fails.push(("size-hint-does-not-bracket".into(), format!("before call {}: size_hint ({}, {:?}) but {} results remained", k, lo, hi, remaining)));
                        break;
                    }
                }
                // distinct &mut addresses; writes land on exactly the matched entities
                let mut addrs = std::collections::BTreeSet::new();
                for r in &rows {
                    for (ci, g) in r.c.iter().enumerate() {
                        if let Got::Val(_, _, a, true) = g {
                            // zero-sized values all live at one dangling address
                            if ci != 1 && !addrs.insert(*a) {
                                fails.push(("mutable-reference-handed-out-twice".into(), format!("{:#x}", a)));
                            }
                        }
                    }
                }
                let mut m2 = ex.m.clone();
                for (_id, row) in m2.ents.iter_mut() {
                    if desc.matches(Model::mask_of(row)) {
                        for c in 0..NC {
                            if desc.writes(c) && c != 1 {
                                if let Some(v) = row[c].as_mut() {
                                    *v = v.wrapping_add(WRITE_DELTA);
                                }
                            }
                        }
                    }
                }
                let after = snap_vals(&snapshot(&mut ex.w));
                if after != model_vals(&m2) {
                    fails.push(("writes-not-seen-by-later-reads-of-exactly-those-entities".into(), format!("world {:?} model {:?}", after, model_vals(&m2))));
                }
                ctx.stats.writes_checked += 1;
                // World::entry(id).query with the same views and filter
                if mode == Traverse::Next {
                    let mut ex2 = build_exec(&ctx.ops, &hist);
                    let exp = desc.expected(&ex2.m);
                    let ids: Vec<Id> = ex2.m.ents.keys().copied().collect();
                    for id in ids {
                        ctx.stats.entry_queries += 1;
                        let got = ent(&mut ex2.w, id);
                        match (got, exp.get(&id)) {
                            (None, None) => {}
                            (Some(_), None) => fails.push(("entry-query-some-for-nonmatching".into(), format!("{:?}", id))),
                            (None, Some(_)) => fails.push(("entry-query-none-for-matching".into(), format!("{:?}", id))),
                            (Some(r), Some(_)) => {
                                if r.id.map_or(false, |x| x != id) {
                                    fails.push(("entry-query-wrong-identifier".into(), format!("{:?} vs {:?}", r.id, id)));
                                }
                                let mut r2 = r.clone();
                                r2.id = Some(id);
                                let single: Model = Model { ents: ex2.m.ents.iter().filter(|(k, _)| **k == id).map(|(k, v)| (*k, *v)).collect(), issued: vec![], res: ex2.m.res };
                                if let Some(f) = check_rows(desc, &[r2], &single, "entry-query") {
                                    fails.push(f);
                                }
                            }
                        }
                    }
                }
                let errs = comp::with_ledger(|l| l.errors.clone()).unwrap_or_default();
                if !errs.is_empty() {
                    fails.push(("bad-value-observed".into(), format!("{:?}", errs)));
                }
            }
            let sys: Vec<(String, String)> = arena::with_system(|| fails.iter().map(|(a, b)| (a.as_str().to_owned(), b.as_str().to_owned())).collect());
            drop(fails);
            drop(comp::ledger_end());
            let rep = arena::end();
            for (k, d) in sys {
                ctx.fail("C03", format!("{} mode={:?}", k, mode).replace(' ', "_"), format!("[{}] {}", label, d), label, wi);
            }
            if !rep.errors.is_empty() {
                ctx.fail("C05", "allocator-misuse-in-query".into(), format!("[{}] {}", label, rep.describe()), label, wi);
            }
        }
    }
}

/// Query-time `Entries`: declared entry views (super) x requested sub-views, for every identifier.
/// `ent(world, ids)` returns, per identifier, `None` when `Entries::entry` found nothing, else the result of
/// the sub-view query.  `desc` describes the *sub* views and the filter.
pub fn run_entries_case(ctx: &mut GridCtx, desc: &QDesc, ent: &dyn Fn(&mut W, &[Id]) -> Vec<(Id, Option<Option<Row>>)>) {
    ctx.stats.instantiations += 1;
    let label = desc.label;
    for wi in 0..ctx.worlds.len() {
        if ctx.only_world.map_or(false, |o| o != wi) {
            continue;
        }
        let hist = ctx.worlds[wi].clone();
        arena::begin(0);
        comp::ledger_begin();
        let mut fails: Vec<(String, String)> = Vec::new();
        {
            let mut ex = build_exec(&ctx.ops, &hist);
            let ids: Vec<Id> = ex.m.issued.clone();
            let got = ent(&mut ex.w, &ids);
            ctx.stats.evaluations += 1;
            let exp = desc.expected(&ex.m);
            for (id, r) in &got {
                ctx.stats.entry_queries += 1;
                let live = ex.m.ents.contains_key(id);
                match r {
                    None => {
                        if live {
                            fails.push(("entries-entry-none-for-live".into(), format!("{:?}", id)));
                        }
                    }
                    Some(q) => {
                        if !live {
                            fails.push(("entries-entry-some-for-dead".into(), format!("{:?}", id)));
                            continue;
                        }
                        match (q, exp.get(id)) {
                            (None, None) => {}
                            (Some(_), None) => fails.push(("sub-view-query-some-for-nonmatching".into(), format!("{:?}", id))),
                            (None, Some(_)) => fails.push(("sub-view-query-none-for-matching".into(), format!("{:?}", id))),
                            (Some(r), Some(_)) => {
                                ctx.stats.rows_checked += 1;
                                if r.id.map_or(false, |x| x != *id) {
                                    fails.push(("sub-view-query-wrong-identifier".into(), format!("{:?} vs {:?}", r.id, id)));
                                }
                                let mut r2 = r.clone();
                                r2.id = Some(*id);
                                let mut d2 = desc.clone();
                                d2.with_id = true;
                                let single: Model = Model { ents: ex.m.ents.iter().filter(|(k, _)| *k == id).map(|(k, v)| (*k, *v)).collect(), issued: vec![], res: ex.m.res };
                                if let Some(f) = check_rows(&d2, &[r2], &single, "sub-view-query") {
                                    fails.push(f);
                                }
                            }
                        }
                    }
                }
            }
            // writes through mutable sub-views are seen by later reads of exactly those entities
            let mut m2 = ex.m.clone();
            for (_id, row) in m2.ents.iter_mut() {
                if desc.matches(Model::mask_of(row)) {
                    for c in 0..NC {
                        if desc.writes(c) && c != 1 {
                            if let Some(v) = row[c].as_mut() {
                                *v = v.wrapping_add(WRITE_DELTA);
                            }
                        }
                    }
                }
            }
            let after = snap_vals(&snapshot(&mut ex.w));
            if after != model_vals(&m2) {
                fails.push(("writes-through-sub-views-misplaced".into(), format!("world {:?} model {:?}", after, model_vals(&m2))));
            }
            ctx.stats.writes_checked += 1;
            let errs = comp::with_ledger(|l| l.errors.clone()).unwrap_or_default();
            if !errs.is_empty() {
                fails.push(("bad-value-observed".into(), format!("{:?}", errs)));
            }
        }
        let sys: Vec<(String, String)> = arena::with_system(|| fails.iter().map(|(a, b)| (a.as_str().to_owned(), b.as_str().to_owned())).collect());
        drop(fails);
        drop(comp::ledger_end());
        let rep = arena::end();
        for (k, d) in sys {
            ctx.fail("C03", k.replace(' ', "_"), format!("[{}] {}", label, d), label, wi);
        }
        if !rep.errors.is_empty() {
            ctx.fail("C05", "allocator-misuse-in-entries-query".into(), format!("[{}] {}", label, rep.describe()), label, wi);
        }
    }
}

#[derive(Clone, Copy, Debug, PartialEq, Eq)]
pub enum Consumer {
    ForEach,
    MapCollect,
    Count,
    Any,
    Sum,
    /// `take_any(k)` collected, then viewed: k (or all, if fewer) distinct matching entities
    TakeAny(usize),
    /// `find_any(|_| true)`
    FindAny,
    /// `take_any(k).count()`
    TakeAnyCount(usize),
    /// `World::run_par_system` with a `ParSystem` over the same views and filter whose body is `for_each`; the system
    /// must be run exactly once, whatever the world holds
    ParSystem,
}

pub const CONSUMERS: [Consumer; 12] = [Consumer::ParSystem, Consumer::ForEach, Consumer::MapCollect, Consumer::Count, Consumer::Any, Consumer::Sum, Consumer::TakeAny(1), Consumer::TakeAny(2), Consumer::TakeAny(3), Consumer::FindAny, Consumer::TakeAnyCount(2), Consumer::TakeAnyCount(3)];

/// par closure: runs `par_query` with the given consumer; returns the rows it saw (ForEach / MapCollect)
/// and a scalar (Count / Any / Sum).
type ParFn<'f> = &'f dyn Fn(&mut W, Consumer, &mut Vec<Row>) -> u64;

pub fn run_par_case(ctx: &mut GridCtx, desc: &QDesc, seq: SeqFn, par: ParFn) {
    ctx.stats.instantiations += 1;
    let label = desc.label;
    for wi in 0..ctx.worlds.len() {
        if ctx.only_world.map_or(false, |o| o != wi) {
            continue;
        }
        let hist = ctx.worlds[wi].clone();
        for consumer in CONSUMERS {
            arena::begin(0);
            comp::ledger_begin();
            let mut fails: Vec<(String, String)> = Vec::new();
            {
                // both worlds get identical values: the value counter is rewound for the second build
                let v0 = comp::with_ledger(|l| l.next_val).unwrap_or(0);
                let mut ex = build_exec(&ctx.ops, &hist);
                comp::with_ledger(|l| l.next_val = v0);
                let mut ex_seq = build_exec(&ctx.ops, &hist);
                let mut seq_rows = Vec::new();
                let mut hints = Vec::new();
                seq(&mut ex_seq.w, Traverse::Fold, &mut seq_rows, &mut hints);
                let mut rows = Vec::new();
                let scalar = par(&mut ex.w, consumer, &mut rows);
                ctx.stats.par_evaluations += 1;
                let exp = desc.expected(&ex.m);
                match consumer {
                    Consumer::ForEach | Consumer::MapCollect | Consumer::ParSystem => {
                        if consumer == Consumer::ParSystem && scalar != 1 {
                            fails.push(("par-system-body-run-count".into(), format!("run_par_system ran the system body {} times", scalar)));
                        }
                        ctx.stats.rows_checked += rows.len() as u64;
                        if let Some(f) = check_rows(desc, &rows, &ex.m, "par-query") {
                            fails.push(f);
                        }
                        // multiset equality with the sequential query (values only)
                        let key = |r: &Row| (r.id, r.c.iter().map(|g| match g { Got::Val(v, ..) => Some(Some(*v)), Got::Absent => Some(None), Got::NotViewed => None }).collect::<Vec<_>>());
                        let mut a: Vec<_> = rows.iter().map(key).collect();
                        let mut b: Vec<_> = seq_rows.iter().map(key).collect();
                        a.sort();
                        b.sort();
                        if a != b {
                            fails.push(("par-differs-from-sequential".into(), format!("par {} rows, seq {} rows", a.len(), b.len())));
                        }
                        let mut addrs = std::collections::BTreeSet::new();
                        for r in &rows {
                            for (ci, g) in r.c.iter().enumerate() {
                                if let Got::Val(_, _, ad, true) = g {
                                    if ci != 1 && !addrs.insert(*ad) {
                                        fails.push(("par-mutable-reference-handed-out-twice".into(), format!("{:#x}", ad)));
                                    }
                                }
                            }
                        }
                        // the outcome of a per-entity-independent update equals the sequential one
                        let a2 = snap_vals(&snapshot(&mut ex.w));
                        let b2 = snap_vals(&snapshot(&mut ex_seq.w));
                        if a2 != b2 {
                            fails.push(("par-update-outcome-differs-from-sequential".into(), format!("par {:?} seq {:?}", a2, b2)));
                        }
                    }
                    Consumer::TakeAny(_) | Consumer::FindAny => {
                        ctx.stats.rows_checked += rows.len() as u64;
                        let k = match consumer { Consumer::TakeAny(k) => k, _ => 1 };
                        if rows.len() != k.min(exp.len()) {
                            fails.push(("par-early-stop-result-count".into(), format!("{} results, {} entities match, {} requested", rows.len(), exp.len(), k)));
                        }
                        let key = |r: &Row| r.c.iter().map(|g| match g { Got::Val(v, ..) => Some(Some(*v)), Got::Absent => Some(None), Got::NotViewed => None }).collect::<Vec<_>>();
                        let mut seen = std::collections::BTreeSet::new();
                        let mut m2 = ex.m.clone();
                        for r in &rows {
                            let rv = key(r);
                            // which entity is it?
                            let cand: Vec<Id> = exp.iter().filter(|(id, e)| e.to_vec() == rv && r.id.map_or(true, |x| x == **id) && !seen.contains(*id)).map(|(id, _)| *id).collect();
                            match cand.first() {
                                None => fails.push(("par-early-stop-row-is-no-unreturned-matching-entity".into(), format!("{:?} {:?}", r.id, rv))),
                                Some(id) => {
                                    seen.insert(*id);
                                    let row = m2.ents.get_mut(id).unwrap();
                                    for c in 0..NC {
                                        if desc.writes(c) && c != 1 {
                                            if let Some(v) = row[c].as_mut() {
                                                *v = v.wrapping_add(WRITE_DELTA);
                                            }
                                        }
                                    }
                                }
                            }
                        }
                        let after = snap_vals(&snapshot(&mut ex.w));
                        if after != model_vals(&m2) {
                            fails.push(("par-early-stop-writes-misplaced".into(), format!("world {:?} model {:?}", after, model_vals(&m2))));
                        }
                    }
                    Consumer::TakeAnyCount(k) => {
                        if scalar as usize != k.min(exp.len()) {
                            fails.push(("par-take-any-count".into(), format!("take_any({}).count() = {}, {} entities match", k, scalar, exp.len())));
                        }
                    }
                    Consumer::Count => {
                        if scalar as usize != exp.len() {
                            fails.push(("par-count".into(), format!("count {} model {}", scalar, exp.len())));
                        }
                    }
                    Consumer::Any => {
                        if (scalar != 0) != !exp.is_empty() {
                            fails.push(("par-any".into(), format!("any {} model {}", scalar, !exp.is_empty())));
                        }
                    }
                    Consumer::Sum => {
                        if scalar as usize != exp.len() * 3 {
                            fails.push(("par-sum".into(), format!("sum {} model {}", scalar, exp.len() * 3)));
                        }
                    }
                }
                let errs = comp::with_ledger(|l| l.errors.clone()).unwrap_or_default();
                if !errs.is_empty() {
                    fails.push(("bad-value-observed".into(), format!("{:?}", errs)));
                }
            }
            let sys: Vec<(String, String)> = arena::with_system(|| fails.iter().map(|(a, b)| (a.as_str().to_owned(), b.as_str().to_owned())).collect());
            drop(fails);
            drop(comp::ledger_end());
            let rep = arena::end();
            for (k, d) in sys {
                ctx.fail("C09", format!("{} consumer={:?}", k, consumer).replace(' ', "_"), format!("[{}] {}", label, d), label, wi);
            }
            if !rep.errors.is_empty() {
                ctx.fail("C09", "allocator-misuse-in-par-query".into(), format!("[{}] {}", label, rep.describe()), label, wi);
            }
        }
    }
}

// ---------------------------------------------------------------------------------------------
// C15: resource views — every subset x order x kind of a three-resource list, through four access paths

pub type R2 = mccore::comp::Big<12>;
pub type Res3 = brood::Resources!(R0, R1, R2);
pub type W3 = brood::World<Reg, Res3>;
pub const RES_INIT: [u32; 3] = [11, 22, 33];
pub const RES_DELTA: u32 = 1000;

pub fn rr<C: Comp>(x: &C) -> u32 {
    x.read().0
}
pub fn rw<C: Comp>(x: &mut C) -> u32 {
    let v = x.read().0;
    x.set(v + RES_DELTA);
    v
}

fn build_w3(empty: bool) -> W3 {
    let mut w = W3::with_resources(brood::resources!(R0::make(RES_INIT[0]), R1::make(RES_INIT[1]), R2::make(RES_INIT[2])));
    if empty {
        return w;
    }
    w.insert(brood::entity!(A::make(1), B::make(2)));
    w.insert(brood::entity!(O::make(3)));
    w.insert(brood::entity!());
    w
}

fn read_all_paths(w: &mut W3) -> Vec<[u32; 3]> {
    use brood::query::{filter, result, Views};
    let mut out = Vec::new();
    out.push([w.get::<R0, _>().read().0, w.get::<R1, _>().read().0, w.get::<R2, _>().read().0]);
    out.push([w.get_mut::<R0, _>().read().0, w.get_mut::<R1, _>().read().0, w.get_mut::<R2, _>().read().0]);
    {
        let result!(c, b, a) = w.view_resources::<Views!(&R2, &R1, &R0), _>();
        out.push([a.read().0, b.read().0, c.read().0]);
    }
    {
        let res = w.query(brood::Query::<Views!(&A), filter::None, Views!(&R1, &R0, &R2)>::new());
        let result!(b, a, c) = res.resources;
        out.push([a.read().0, b.read().0, c.read().0]);
    }
    out
}

/// `views`: (resource index, mutable) in requested order; `access(world, path)` performs the access through
/// path 0 `view_resources`, 1 `query` resource views, 2 `par_query` resource views, 3 `run_system`, 4 `run_par_system`, returning the
/// value read through each view (mutable views additionally add `RES_DELTA`).
pub fn run_res_case(ctx: &mut GridCtx, label: &'static str, views: &[(usize, bool)], access: &dyn Fn(&mut W3, u8) -> Vec<u32>) {
    ctx.stats.instantiations += 1;
    // every path on a populated world and on a world without entities (a system's resource views and its own
    // state must be served whether or not any entity matches)
    for (path, empty) in (0..5u8).flat_map(|p| [(p, false), (p, true)]) {
        arena::begin(0);
        comp::ledger_begin();
        let mut fails: Vec<(String, String)> = Vec::new();
        {
            let mut w = build_w3(empty);
            let w2 = w.clone();
            let got = access(&mut w, path);
            ctx.stats.evaluations += 1;
            let want: Vec<u32> = views.iter().map(|(i, _)| RES_INIT[*i]).collect();
            if got != want {
                fails.push((format!("resource-view-returned-wrong-resource path={}{}", path, if empty { " empty-world" } else { "" }), format!("views {:?}: read {:?}, expected {:?}", views, got, want)));
            }
            let mut exp = RES_INIT;
            for (i, m) in views {
                if *m {
                    exp[*i] += RES_DELTA;
                }
            }
            for (pi, r) in read_all_paths(&mut w).iter().enumerate() {
                if *r != exp {
                    fails.push((format!("write-not-visible-through-other-path path={}{} readback={}", path, if empty { " empty-world" } else { "" }, pi), format!("views {:?}: resources read {:?}, expected {:?}", views, r, exp)));
                }
            }
            // an independent clone taken before the access is untouched
            let mut w2 = w2;
            if read_all_paths(&mut w2)[0] != RES_INIT {
                fails.push(("resource-access-changed-a-clone".into(), format!("{:?}", views)));
            }
            let errs = comp::with_ledger(|l| l.errors.clone()).unwrap_or_default();
            if !errs.is_empty() {
                fails.push(("bad-value-observed".into(), format!("{:?}", errs)));
            }
        }
        let sys: Vec<(String, String)> = arena::with_system(|| fails.iter().map(|(a, b)| (a.as_str().to_owned(), b.as_str().to_owned())).collect());
        drop(fails);
        drop(comp::ledger_end());
        let rep = arena::end();
        for (k, d) in sys {
            if !ctx.found.iter().any(|f| f.0 == "C15" && f.1 == k) {
                ctx.found.push(("C15".into(), k.replace(' ', "_"), format!("[{}] {}", label, d), format!("{{\"engine\":\"grid\",\"case\":{},\"world_index\":0,\"world_history\":[]}}", mccore::util::json_str(label))));
            }
        }
        if !rep.errors.is_empty() || rep.leaked_blocks > 0 {
            ctx.found.push(("C15".into(), "allocator-misuse-or-leak-in-resource-access".into(), format!("[{}] {}", label, rep.describe()), format!("{{\"engine\":\"grid\",\"case\":{},\"world_index\":0,\"world_history\":[]}}", mccore::util::json_str(label))));
        }
    }
}

/// Shard driver used by the generated binaries.
pub fn shard_main(cases: &[(&str, fn(&mut GridCtx))]) {
    let args: Vec<String> = std::env::args().collect();
    let mut depth = 3usize;
    let mut only_case: Option<String> = None;
    let mut only_world: Option<usize> = None;
    let mut i = 1;
    while i < args.len() {
        match args[i].as_str() {
            "--depth" => { depth = args[i + 1].parse().unwrap(); i += 1 }
            "--case" => { only_case = Some(args[i + 1].clone()); i += 1 }
            "--world" => { only_world = Some(args[i + 1].parse().unwrap()); i += 1 }
            "--list" => { for (n, _) in cases { println!("{n}"); } return }
            x => panic!("unknown argument {x}"),
        }
        i += 1;
    }
    mccore::util::install_crash_handler();
    mccore::util::install_quiet_panic_hook();
    let pool = rayon::ThreadPoolBuilder::new().num_threads(1).build().unwrap();
    pool.install(|| {
        arena::init_thread(0);
        let mut ops = alphabet("shape");
        let mut worlds = enumerate_states(&ops, depth);
        // a few worlds outside the small-scope catalogue: tables of 33 and 40 rows next to tables of one or two rows
        // (row-count thresholds in the iteration and splitting code), reached by two extra operations
        {
            use mccore::s4::Op;
            let big_ao = ops.len() as u8;
            ops.push(Op::Extend { mask: 5, n: 40, style: 0 });
            let big_a = ops.len() as u8;
            ops.push(Op::Extend { mask: 1, n: 33, style: 0 });
            // 0: insert {} ; 1: insert {A,O} reversed ; 2: insert {A,Z,O,B} reversed (the first three operations of "shape")
            for h in [vec![big_ao], vec![big_ao, 1], vec![big_ao, 0, 2], vec![big_a, 1, 2], vec![1, 2, big_a], vec![big_ao, big_a, 2]] {
                worlds.push(h);
            }
        }
        let mut ctx = GridCtx { ops, worlds, found: vec![], stats: GridStats::default(), only_world };
        if let Some(msg) = ENUM_FAILURE.with(|f| f.borrow_mut().take()) {
            // the catalogue is built with plain public operations; a panic there means queries cannot be judged
            // on that world, and is itself a misbehaviour reported for whichever property this shard serves
            for prop in ["C03", "C09", "C15"] {
                ctx.found.push((prop.into(), "operation-panicked-while-building-a-catalogue-world".into(), msg.clone(), "{\"engine\":\"grid\",\"case\":\"catalogue\",\"world_index\":0,\"world_history\":[]}".into()));
            }
        }
        for (name, f) in cases {
            if only_case.as_ref().map_or(false, |c| c != name) {
                continue;
            }
            mccore::util::set_crash_descriptor(&format!("engine=grid case={}", name));
            let r = std::panic::catch_unwind(std::panic::AssertUnwindSafe(|| f(&mut ctx)));
            if r.is_err() {
                // an unwinding panic inside brood while evaluating a query
                if arena::is_active() {
                    drop(comp::ledger_end());
                    let _ = arena::end();
                }
                let msg = mccore::util::take_last_panic();
                // cases named "par:..." are parallel queries (C09); "res:..." resource accesses (C15); the rest C03
                let owner = if name.starts_with("par:") { "C09" } else if name.starts_with("res:") { "C15" } else { "C03" };
                ctx.found.push((owner.into(), "query-panicked".into(), format!("[{}] {}", name, msg), format!("{{\"engine\":\"grid\",\"case\":{},\"world_index\":0,\"world_history\":[]}}", mccore::util::json_str(name))));
            }
        }
        for (prop, key, detail, replay) in &ctx.found {
            println!("FOUND property={} key={} :: {} :: REPLAY {}", prop, key, detail.replace('\n', " "), replay);
        }
        // two of the cases this shard actually evaluated, for the evidence file
        for (name, _) in cases.iter().filter(|(n, _)| only_case.as_ref().map_or(true, |c| c == n)).take(2) {
            let wi = ctx.worlds.len() / 2;
            println!("SAMPLE {{\"case\":{},\"world_index\":{},\"world_history\":{:?},\"world_ops\":{:?}}}", mccore::util::json_str(name), wi, ctx.worlds[wi], ctx.worlds[wi].iter().map(|&o| format!("{:?}", ctx.ops[o as usize])).collect::<Vec<_>>());
        }
        let s = &ctx.stats;
        println!(
            "STATS {{\"worlds\":{},\"instantiations\":{},\"evaluations\":{},\"rows_checked\":{},\"nonempty_results\":{},\"write_readbacks\":{},\"entry_queries\":{},\"par_evaluations\":{}}}",
            ctx.worlds.len(), s.instantiations, s.evaluations, s.rows_checked, s.nonempty_results, s.writes_checked, s.entry_queries, s.par_evaluations
        );
    });
}
