//! Wide registries (identifier bit sets of exactly one byte, and spanning two bytes): a reduced
//! history harness instantiated by macro for 8, 10 and 16 components.  Same oracles as `s4` for the
//! properties it serves (C01 map behaviour, C02 identifiers, C04 drops, C05 memory, C06 round trips,
//! C13 structure), over an alphabet that touches the first, the last and the byte-boundary positions.

pub use brood;
pub use mccore;
pub use mccore::arena;
pub use mccore::comp::{self, Comp, Small, TokErr};
pub use mccore::s4::{Checker, Failure, Prop};
pub use brood::entity;
pub use serde;
pub use serde_assert;
pub use serde_json;
pub use std::collections::{BTreeMap, BTreeSet};

pub type Id = (usize, u64);

#[derive(Clone, Copy, Debug, PartialEq, Eq)]
pub enum WOp {
    /// insert the k-th shape of the harness's shape list
    Insert(u8),
    /// extend with two rows of the k-th shape
    Extend(u8),
    RemoveLo,
    RemoveHi,
    Clear,
    /// add / remove component `positions()[k]` on the lowest-slot entity
    Add(u8),
    RemoveComp(u8),
    AddHi(u8),
    MutAll,
    Shrink,
    CloneSelf,
    Snapshot,
    CloneFromAux,
    RtJson,
    RtTok(bool),
}

impl WOp {
    pub fn kind(&self) -> &'static str {
        match self {
            WOp::Insert(_) => "insert",
            WOp::Extend(_) => "extend",
            WOp::RemoveLo | WOp::RemoveHi => "remove",
            WOp::Clear => "clear",
            WOp::Add(_) | WOp::AddHi(_) => "entry_add",
            WOp::RemoveComp(_) => "entry_remove",
            WOp::MutAll => "mut_query",
            WOp::Shrink => "shrink_to_fit",
            WOp::CloneSelf => "clone",
            WOp::Snapshot => "snapshot",
            WOp::CloneFromAux => "clone_from",
            WOp::RtJson => "rt_json",
            WOp::RtTok(_) => "rt_tok",
        }
    }
}

pub fn wide_alphabet() -> Vec<WOp> {
    let mut v = vec![WOp::Insert(0), WOp::Insert(1), WOp::Insert(2), WOp::Insert(3), WOp::Extend(2), WOp::RemoveLo, WOp::RemoveHi, WOp::Clear];
    for k in 0..4u8 {
        v.push(WOp::Add(k));
        v.push(WOp::RemoveComp(k));
    }
    v.extend([WOp::AddHi(3), WOp::MutAll, WOp::Shrink, WOp::CloneSelf, WOp::Snapshot, WOp::CloneFromAux, WOp::RtJson, WOp::RtTok(false), WOp::RtTok(true)]);
    v
}

pub struct WideOutcome {
    pub disabled: bool,
    pub hash: u128,
    pub fails: Vec<Failure>,
    pub allocs: u64,
}

#[macro_export]
macro_rules! wide_harness {
    ($modname:ident, $n:expr, [$($t:ident = $k:expr),*], positions = [$($pos:expr),*], shapes = [$([$($s:ident),*]),*]) => {
        pub mod $modname {
            use $crate::*;
            use $crate::brood::{query::{result, Views}, Query, Registry, World};
            pub const N: usize = $n;
            $(pub type $t = Small<{ 100 + $k }>;)*
            pub type Reg = Registry!($($t),*);
            pub type W = World<Reg>;
            pub const POSITIONS: [usize; 4] = [$($pos),*];

            #[derive(Clone, Debug, PartialEq, Eq)]
            pub struct Model {
                pub ents: BTreeMap<Id, [Option<u32>; N]>,
                pub issued: Vec<Id>,
            }

            fn idp(i: entity::Identifier) -> Id { i.verif_parts() }
            fn mkid(i: Id) -> entity::Identifier { entity::Identifier::verif_from_parts(i.0, i.1) }

            pub fn snapshot(w: &mut W) -> Vec<(Id, [Option<(u32, u64)>; N])> {
                let mut out = Vec::new();
                for result!(id $(, $t)*) in w.query(Query::<Views!(entity::Identifier $(, Option<&$t>)*)>::new()).iter {
                    #[allow(non_snake_case)]
                    let row = [$($t.map(|c| c.read())),*];
                    out.push((idp(id), row));
                }
                out.sort_by_key(|r| r.0);
                out
            }

            fn mk<C: Comp>(pos: usize, row: &mut [Option<u32>; N]) -> C {
                let v = comp::fresh_val();
                row[pos] = Some(v);
                C::make(v)
            }

            pub struct Exec { pub w: W, pub aux: Option<W>, pub m: Model, pub maux: Option<Model> }

            fn pos_of<C: 'static>() -> usize {
                let ids = [$(std::any::TypeId::of::<$t>()),*];
                ids.iter().position(|x| *x == std::any::TypeId::of::<C>()).unwrap()
            }

            impl Exec {
                pub fn new() -> Exec { Exec { w: W::new(), aux: None, m: Model { ents: BTreeMap::new(), issued: vec![] }, maux: None } }

                fn issue(&mut self, id: Id, row: [Option<u32>; N], chk: &mut Checker, k: &str) {
                    if self.m.issued.contains(&id) {
                        chk.fail(Prop::C02, &format!("reissued-identifier op={}", k), format!("{:?}", id));
                    }
                    self.m.issued.push(id);
                    self.m.ents.insert(id, row);
                }

                /// returns false when the operation is disabled in this state
                pub fn apply(&mut self, op: &WOp, chk: &mut Checker) -> bool {
                    let live: Vec<Id> = self.m.ents.keys().copied().collect();
                    match *op {
                        WOp::Insert(k) => {
                            let mut row = [None; N];
                            let mut shape = 0u8;
                            let mut id = None;
                            $(
                                if shape == k && id.is_none() {
                                    id = Some(self.w.insert($crate::brood::entity!($(mk::<$s>(pos_of::<$s>(), &mut row)),*)));
                                }
                                shape += 1;
                            )*
                            let _ = shape;
                            let Some(id) = id else { return false };
                            self.issue(idp(id), row, chk, op.kind());
                        }
                        WOp::Extend(k) => {
                            let mut rows = [[None; N]; 2];
                            let mut shape = 0u8;
                            let mut ids = None;
                            $(
                                if shape == k && ids.is_none() {
                                    ids = Some(self.w.extend($crate::brood::entities!(($(mk::<$s>(pos_of::<$s>(), &mut rows[0])),*), ($(mk::<$s>(pos_of::<$s>(), &mut rows[1])),*))));
                                }
                                shape += 1;
                            )*
                            let _ = shape;
                            let Some(ids) = ids else { return false };
                            if ids.len() != 2 {
                                chk.fail(Prop::C01, "extend-returned-count", format!("{}", ids.len()));
                            }
                            for (i, id) in ids.iter().enumerate().take(2) {
                                self.issue(idp(*id), rows[i], chk, op.kind());
                            }
                        }
                        WOp::RemoveLo | WOp::RemoveHi => {
                            let id = if matches!(op, WOp::RemoveLo) { live.first().copied() } else if live.len() >= 2 { live.last().copied() } else { None };
                            let Some(id) = id else { return false };
                            self.w.remove(mkid(id));
                            self.m.ents.remove(&id);
                        }
                        WOp::Clear => {
                            self.w.clear();
                            self.m.ents.clear();
                        }
                        WOp::Add(k) | WOp::AddHi(k) | WOp::RemoveComp(k) => {
                            let id = if matches!(op, WOp::AddHi(_)) { if live.len() >= 2 { live.last().copied() } else { None } } else { live.first().copied() };
                            let Some(id) = id else { return false };
                            let Some(mut e) = self.w.entry(mkid(id)) else {
                                chk.fail(Prop::C02, "entry-none-for-live", format!("{:?}", id));
                                return true;
                            };
                            let row = self.m.ents.get_mut(&id).unwrap();
                            let p = POSITIONS[k as usize];
                            let mut done = false;
                            let mut i = 0usize;
                            $(
                                if i == p && !done {
                                    done = true;
                                    if matches!(op, WOp::RemoveComp(_)) {
                                        e.remove::<$t, _>();
                                        row[p] = None;
                                    } else {
                                        e.add(mk::<$t>(p, row));
                                    }
                                }
                                i += 1;
                            )*
                            let _ = (i, done);
                        }
                        WOp::MutAll => {
                            if live.is_empty() { return false; }
                            let base = comp::fresh_val() << 8;
                            let p = POSITIONS[3];
                            let mut i = 0usize;
                            let mut done = false;
                            $(
                                if i == p && !done {
                                    done = true;
                                    let mut visited: Vec<Id> = Vec::new();
                                    for result!(id, c) in self.w.query(Query::<Views!(entity::Identifier, &mut $t)>::new()).iter {
                                        let nv = base + (idp(id).0 as u32 & 0xff);
                                        c.set(nv);
                                        visited.push(idp(id));
                                        if let Some(r) = self.m.ents.get_mut(&idp(id)) { r[p] = Some(nv); }
                                    }
                                    visited.sort();
                                    let want: Vec<Id> = self.m.ents.iter().filter(|(_, r)| r[p].is_some()).map(|(i, _)| *i).collect();
                                    if visited != want {
                                        chk.fail(Prop::C01, "mut-query-visited-the-wrong-entities", format!("component position {}: visited {:?}, model {:?}", p, visited, want));
                                        chk.fail(Prop::C03, "mut-query-visited-the-wrong-entities", format!("component position {}: visited {:?}, model {:?}", p, visited, want));
                                    }
                                    // the same selection through a Has filter and through Not<Has>
                                    let mut has: Vec<Id> = self.w.query(Query::<Views!(entity::Identifier), $crate::brood::query::filter::Has<$t>>::new()).iter.map(|result!(id)| idp(id)).collect();
                                    has.sort();
                                    let mut hasnot: Vec<Id> = self.w.query(Query::<Views!(entity::Identifier), $crate::brood::query::filter::Not<$crate::brood::query::filter::Has<$t>>>::new()).iter.map(|result!(id)| idp(id)).collect();
                                    hasnot.sort();
                                    let wantnot: Vec<Id> = self.m.ents.iter().filter(|(_, r)| r[p].is_none()).map(|(i, _)| *i).collect();
                                    if has != want || hasnot != wantnot {
                                        chk.fail(Prop::C01, "filtered-query-selected-the-wrong-entities", format!("component position {}: Has {:?} / model {:?}; Not<Has> {:?} / model {:?}", p, has, want, hasnot, wantnot));
                                        chk.fail(Prop::C03, "filtered-query-selected-the-wrong-entities", format!("component position {}: Has {:?} / model {:?}; Not<Has> {:?} / model {:?}", p, has, want, hasnot, wantnot));
                                    }
                                }
                                i += 1;
                            )*
                            let _ = (i, done);
                        }
                        WOp::Shrink => self.w.shrink_to_fit(),
                        WOp::CloneSelf => { let c = self.w.clone(); self.w = c; }
                        WOp::Snapshot => { self.aux = Some(self.w.clone()); self.maux = Some(self.m.clone()); }
                        WOp::CloneFromAux => {
                            let Some(aux) = self.aux.as_ref() else { return false };
                            self.w.clone_from(aux);
                            self.m = self.maux.clone().unwrap();
                        }
                        WOp::RtJson => {
                            match serde_json::to_string(&self.w).map_err(|e| e.to_string()).and_then(|s| serde_json::from_str::<W>(&s).map_err(|e| format!("{e}; text={s}"))) {
                                Ok(w2) => { if !(self.w == w2) { chk.fail(Prop::C06, "roundtrip-not-equal enc=json", String::new()); } self.w = w2; }
                                Err(e) => chk.fail(Prop::C06, "roundtrip-failed enc=json", e),
                            }
                        }
                        WOp::RtTok(human) => {
                            use $crate::serde::{Deserialize, Serialize};
                            let ser = serde_assert::Serializer::builder().is_human_readable(human).build();
                            let r = self.w.serialize(&ser).map_err(|e| format!("{e:?}")).and_then(|t| {
                                let shown = format!("{:?}", t);
                                let mut de = serde_assert::Deserializer::builder().tokens(t).is_human_readable(human).build();
                                W::deserialize(&mut de).map_err(|e| format!("{e:?}; tokens={shown}"))
                            });
                            // the same with every struct written as a sequence (visit_seq branch of the struct visitors)
                            let ser = serde_assert::Serializer::builder().is_human_readable(human).serialize_struct_as(serde_assert::ser::SerializeStructAs::Seq).build();
                            let rs = self.w.serialize(&ser).map_err(|e| format!("{e:?}")).and_then(|t| {
                                let shown = format!("{:?}", t);
                                let mut de = serde_assert::Deserializer::builder().tokens(t).is_human_readable(human).build();
                                W::deserialize(&mut de).map_err(|e| format!("{e:?}; tokens={shown}"))
                            });
                            match rs {
                                Ok(w3) => { if !(self.w == w3) { chk.fail(Prop::C06, "roundtrip-not-equal enc=tok-structs-as-sequences", String::new()); } }
                                Err(e) => chk.fail(Prop::C06, &format!("roundtrip-failed enc=tok-{}-structs-as-sequences", if human { "hr" } else { "compact" }), e),
                            }
                            match r {
                                Ok(w2) => { if !(self.w == w2) { chk.fail(Prop::C06, "roundtrip-not-equal enc=tok", String::new()); } self.w = w2; }
                                Err(e) => chk.fail(Prop::C06, &format!("roundtrip-failed enc=tok-{}", if human { "hr" } else { "compact" }), e),
                            }
                        }
                    }
                    true
                }

                pub fn check(&mut self, chk: &mut Checker, k: &str) {
                    let mut owned: BTreeSet<u64> = BTreeSet::new();
                    for (which, w, m) in [("world", Some(&mut self.w), Some(&self.m)), ("aux", self.aux.as_mut(), self.maux.as_ref())] {
                        let (Some(w), Some(m)) = (w, m) else { continue };
                        let snap = snapshot(w);
                        let sv: Vec<(Id, [Option<u32>; N])> = snap.iter().map(|(i, r)| { let mut o = [None; N]; for c in 0..N { o[c] = r[c].map(|x| x.0); } (*i, o) }).collect();
                        let mv: Vec<(Id, [Option<u32>; N])> = m.ents.iter().map(|(i, r)| (*i, *r)).collect();
                        if sv != mv {
                            chk.fail(if which == "aux" { Prop::C10 } else { Prop::C01 }, &format!("contents-differ op={} world={}", k, which), format!("world {:?} model {:?}", sv, mv));
                        }
                        if w.len() != m.ents.len() {
                            chk.fail(Prop::C01, &format!("len-differs op={}", k), format!("{} vs {}", w.len(), m.ents.len()));
                        }
                        for (_, r) in &snap { for x in r.iter().flatten() { owned.insert(x.1); } }
                        for &id in &m.issued {
                            let live = m.ents.contains_key(&id);
                            if w.contains(mkid(id)) != live || w.entry(mkid(id)).is_some() != live {
                                chk.fail(Prop::C02, &format!("identifier-resolution-wrong live={} op={}", live, k), format!("{:?}", id));
                            }
                        }
                        audit(&w.verif_dump(), m, chk, k, which);
                    }
                    let live: BTreeSet<u64> = comp::with_ledger(|l| l.live_serials().into_iter().collect()).unwrap_or_default();
                    if live != owned {
                        let extra: Vec<u64> = live.difference(&owned).copied().collect();
                        let missing: Vec<u64> = owned.difference(&live).copied().collect();
                        if !extra.is_empty() { chk.fail(Prop::C04, &format!("not-dropped op={}", k), format!("serials {:?}", extra)); }
                        if !missing.is_empty() { chk.fail(Prop::C04, &format!("dropped-early op={}", k), format!("serials {:?}", missing)); }
                    }
                    for e in comp::with_ledger(|l| l.errors.clone()).unwrap_or_default() {
                        match e {
                            TokErr::DoubleDrop { .. } => chk.fail(Prop::C04, &format!("double-drop op={}", k), format!("{:?}", e)),
                            _ => chk.fail(Prop::C05, &format!("bad-value-observed op={}", k), format!("{:?}", e)),
                        }
                    }
                    if arena::error_count() > 0 {
                        chk.fail(Prop::C05, &format!("allocator-misuse op={}", k), format!("{} allocator errors", arena::error_count()));
                    }
                }

                pub fn canon(&self) -> Vec<u8> {
                    let mut out = Vec::new();
                    for w in [Some(&self.w), self.aux.as_ref()] {
                        let Some(w) = w else { out.push(0xee); continue };
                        let d = w.verif_dump();
                        let mut arch: Vec<&$crate::brood::verif::ArchetypeDump> = d.archetypes.iter().collect();
                        arch.sort_by(|a, b| a.id_bytes.cmp(&b.id_bytes));
                        let rank: BTreeMap<usize, usize> = arch.iter().enumerate().map(|(i, a)| (a.id_addr, i)).collect();
                        out.push(arch.len() as u8);
                        for a in &arch {
                            out.extend_from_slice(&a.id_bytes);
                            out.push(a.length as u8);
                            for c in &a.columns { out.push(c.1.min(255) as u8); }
                            for id in &a.entity_ids { out.push(id.0 as u8); out.push(id.1 as u8); }
                        }
                        for s in &d.slots {
                            out.push(s.generation as u8);
                            match s.location { None => out.push(0xff), Some((a, r)) => { out.push(rank.get(&a).map_or(0xfe, |x| *x as u8)); out.push(r as u8); } }
                        }
                        out.push(0xfd);
                        for f in &d.free { out.push(*f as u8); }
                        out.push(d.type_id_lookup.len() as u8);
                    }
                    out
                }
            }

            pub fn audit(d: &$crate::brood::verif::Dump, m: &Model, chk: &mut Checker, k: &str, which: &str) {
                let mut bad = |key: &str, detail: String| chk.fail(Prop::C13, &format!("{} op={}", key, k), format!("[{}] {}", which, detail));
                let nbytes = (N + 7) / 8;
                let mut by_addr: BTreeMap<usize, usize> = BTreeMap::new();
                let mut seen: BTreeSet<Vec<u8>> = BTreeSet::new();
                let mut total = 0usize;
                let mut rows: BTreeSet<Id> = BTreeSet::new();
                for (ai, a) in d.archetypes.iter().enumerate() {
                    if a.id_bytes.len() != nbytes { bad("identifier-size", format!("{:?}", a.id_bytes)); }
                    if !seen.insert(a.id_bytes.clone()) { bad("two-tables-one-component-set", format!("{:?}", a.id_bytes)); }
                    if N % 8 != 0 && a.id_bytes.last().map_or(false, |b| b >> (N % 8) != 0) { bad("identifier-padding-bits", format!("{:?}", a.id_bytes)); }
                    by_addr.insert(a.id_addr, ai);
                    let bits: u32 = a.id_bytes.iter().map(|b| b.count_ones()).sum();
                    if a.columns.len() != bits as usize { bad("column-count", format!("{:?}: {}", a.id_bytes, a.columns.len())); }
                    if a.entity_ids.len() != a.length { bad("entity-column-length", format!("{} vs {}", a.entity_ids.len(), a.length)); }
                    total += a.length;
                    let mut mask = 0u32;
                    for (i, b) in a.id_bytes.iter().enumerate() { mask |= (*b as u32) << (8 * i); }
                    for (row, id) in a.entity_ids.iter().enumerate() {
                        if !rows.insert(*id) { bad("identifier-on-two-rows", format!("{:?}", id)); }
                        match d.slots.get(id.0) {
                            None => bad("row-identifier-out-of-range", format!("{:?}", id)),
                            Some(s) => if s.generation != id.1 || s.location != Some((a.id_addr, row)) { bad("slot-location-mismatch", format!("{:?} at row {} of {:?}: slot {:?}", id, row, a.id_bytes, s)); }
                        }
                        if let Some(r) = m.ents.get(id) {
                            let mm = (0..N).fold(0u32, |acc, i| acc | ((r[i].is_some() as u32) << i));
                            if mm != mask { bad("entity-in-wrong-table", format!("{:?}: set {:#b} stored in {:#b}", id, mm, mask)); }
                        }
                    }
                }
                if total != d.len { bad("len-vs-rows", format!("{} vs {}", d.len, total)); }
                let live: BTreeSet<Id> = m.ents.keys().copied().collect();
                if rows != live { bad("stored-vs-live", format!("{:?}", rows.symmetric_difference(&live).collect::<Vec<_>>())); }
                let mut inactive = BTreeSet::new();
                for (i, s) in d.slots.iter().enumerate() {
                    match s.location {
                        None => { inactive.insert(i); }
                        Some((addr, row)) => match by_addr.get(&addr) {
                            None => bad("slot-points-outside-world", format!("slot {}", i)),
                            Some(&ai) => if d.archetypes[ai].entity_ids.get(row) != Some(&(i, s.generation)) { bad("active-slot-without-row", format!("slot {}", i)); }
                        }
                    }
                }
                let free: BTreeSet<usize> = d.free.iter().copied().collect();
                if free.len() != d.free.len() { bad("free-list-duplicate", format!("{:?}", d.free)); }
                if free != inactive { bad("free-list-vs-inactive-slots", format!("free {:?} inactive {:?}", d.free, inactive)); }
                for (kb, kaddr, vaddr) in &d.foreign_lookup {
                    match by_addr.get(vaddr) {
                        None => bad("bytes-lookup-dangling", format!("{:?}", kb)),
                        Some(&ai) => if &d.archetypes[ai].id_bytes != kb || kaddr != vaddr { bad("bytes-lookup-wrong-target", format!("{:?}", kb)); }
                    }
                }
                for t in &d.type_id_lookup { if !by_addr.contains_key(t) { bad("typeid-lookup-dangling", format!("{:#x}", t)); } }
            }

            /// Executes one history on a fresh world inside a fresh arena epoch (checks after the last op).
            pub fn run_one(ops: &[WOp], hist: &[u8], props: &[Prop]) -> WideOutcome {
                arena::begin(0);
                comp::ledger_begin();
                let mut chk = Checker::default();
                let mut disabled = false;
                let mut hash = 0u128;
                let lastk = hist.last().map_or("init", |&o| ops[o as usize].kind());
                let r = std::panic::catch_unwind(std::panic::AssertUnwindSafe(|| {
                    let mut ex = std::mem::ManuallyDrop::new(Exec::new());
                    for (i, &oi) in hist.iter().enumerate() {
                        if !ex.apply(&ops[oi as usize], &mut chk) {
                            if i + 1 != hist.len() { panic!("machinery: disabled op inside a representative history"); }
                            disabled = true;
                            break;
                        }
                    }
                    if !disabled {
                        ex.check(&mut chk, lastk);
                        hash = $crate::mccore::util::hash128(&ex.canon());
                    }
                    let Exec { w, aux, m, maux } = std::mem::ManuallyDrop::into_inner(ex);
                    drop(aux);
                    drop(w);
                    drop((m, maux));
                    if !disabled {
                        let live = comp::with_ledger(|l| l.live_serials()).unwrap_or_default();
                        if !live.is_empty() { chk.fail(Prop::C04, &format!("not-dropped-with-world after={}", lastk), format!("{:?}", live)); }
                        for e in comp::with_ledger(|l| l.errors.clone()).unwrap_or_default() {
                            if let TokErr::DoubleDrop { .. } = e { chk.fail(Prop::C04, &format!("double-drop-at-world-drop after={}", lastk), format!("{:?}", e)); }
                        }
                    }
                }));
                if r.is_err() {
                    let msg = $crate::mccore::util::take_last_panic();
                    for &p in props { chk.fail(p, &format!("panic op={}", lastk), msg.clone()); }
                }
                let mut fails: Vec<Failure> = arena::with_system(|| chk.fails.iter().map(|f| Failure { prop: f.prop, key: f.key.as_str().to_owned(), detail: f.detail.as_str().to_owned() }).collect());
                drop(chk);
                drop(comp::ledger_end());
                let rep = arena::end();
                if !disabled {
                    let panicked = fails.iter().any(|f| f.key.starts_with("panic "));
                    if !rep.errors.is_empty() { fails.push(Failure { prop: Prop::C05, key: format!("allocator-misuse after={}", lastk), detail: rep.describe() }); }
                    else if rep.leaked_blocks > 0 && !panicked { fails.push(Failure { prop: Prop::C05, key: format!("memory-not-returned after={}", lastk), detail: rep.describe() }); }
                }
                fails.retain(|f| props.contains(&f.prop));
                WideOutcome { disabled, hash, fails, allocs: rep.total_allocs }
            }
        }
    };
}

