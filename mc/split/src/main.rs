//! E4: every split tree of `par_query`.  The vendored rayon consults a thread-claimed oracle in
//! `Splitter::try_split`; on a 1-thread pool the execution is a function of the answer sequence, and
//! the set of answer sequences is exactly the set of split trees rayon can produce for some pool size
//! and stealing pattern.  DFS over answer sequences with prefix replay.

use brood::{entity, query::{filter, result, Views}, Query, Registry, World};
use mccore::{arena, util};
use rayon::iter::ParallelIterator;
use std::cell::RefCell;
use std::collections::BTreeMap;
use std::rc::Rc;
use std::time::Instant;

#[global_allocator]
static GLOBAL: arena::Arena = arena::Arena;

#[derive(Clone, Copy, Debug, PartialEq)]
pub struct A(pub u64);
#[derive(Clone, Copy, Debug, PartialEq)]
pub struct B(pub u64);
#[derive(Clone, Copy, Debug, PartialEq)]
pub struct C(pub u64);
#[derive(Clone, Copy, Debug, PartialEq)]
pub struct D(pub u64);
#[derive(Clone, Copy, Debug, PartialEq)]
pub struct E(pub u64);
type Reg = Registry!(A, B, C, D, E);
type W = World<Reg>;
type Id = (usize, u64);

/// world spec: (archetype mask, number of rows; `usize::MAX` rows = created then emptied is encoded as 0 with `ghost`)
#[derive(Clone, Debug)]
struct Spec {
    tables: Vec<(u8, usize, bool)>, // (mask, rows, created-but-empty)
}

fn insert_mask(w: &mut W, mask: u8, v: u64) -> entity::Identifier {
    let (a, b, c, d, e) = (A(v + 1), B(v + 2), C(v + 3), D(v + 4), E(v + 5));
    macro_rules! ins {
        ($($x:ident),*) => { w.insert(brood::entity!($($x),*)) };
    }
    match mask {
        0 => ins!(), 1 => ins!(a), 2 => ins!(b), 3 => ins!(a, b), 4 => ins!(c), 5 => ins!(a, c), 6 => ins!(b, c), 7 => ins!(a, b, c),
        8 => ins!(d), 9 => ins!(a, d), 10 => ins!(b, d), 11 => ins!(a, b, d), 12 => ins!(c, d), 13 => ins!(a, c, d), 14 => ins!(b, c, d), 15 => ins!(a, b, c, d),
        16 => ins!(e), 17 => ins!(a, e), 18 => ins!(b, e), 19 => ins!(a, b, e), 20 => ins!(c, e), 21 => ins!(a, c, e), 22 => ins!(b, c, e), 23 => ins!(a, b, c, e),
        24 => ins!(d, e), 25 => ins!(a, d, e), 26 => ins!(b, d, e), 27 => ins!(a, b, d, e), 28 => ins!(c, d, e), 29 => ins!(a, c, d, e), 30 => ins!(b, c, d, e), _ => ins!(a, b, c, d, e),
    }
}

fn build(spec: &Spec) -> W {
    let mut w = W::new();
    for &(mask, rows, ghost) in &spec.tables {
        if ghost {
            let id = insert_mask(&mut w, mask, 9000);
            w.remove(id);
        }
        for r in 0..rows {
            insert_mask(&mut w, mask, (mask as u64) * 1000 + (r as u64) * 10);
        }
    }
    w
}

#[derive(Clone, Debug, PartialEq, Eq, PartialOrd, Ord)]
struct Row {
    id: Option<Id>,
    vals: Vec<Option<Option<u64>>>,
    muts: Vec<usize>,
}

fn idp(i: entity::Identifier) -> Id {
    i.verif_parts()
}

// ---- explorer -----------------------------------------------------------------------------------
#[derive(Default)]
struct Ex {
    prefix: Vec<bool>,
    trace: Vec<bool>,
}

fn with_oracle<T>(prefix: &[bool], f: impl FnOnce() -> T) -> (T, Vec<bool>) {
    let ex = arena::with_system(|| Rc::new(RefCell::new(Ex { prefix: prefix.to_vec(), trace: Vec::with_capacity(64) })));
    let ex2 = ex.clone();
    let oracle: Box<dyn FnMut() -> bool> = arena::with_system(|| {
        Box::new(move || {
            let mut e = ex2.borrow_mut();
            let pos = e.trace.len();
            let ans = if pos < e.prefix.len() { e.prefix[pos] } else { false };
            arena::with_system(|| e.trace.push(ans));
            ans
        }) as Box<dyn FnMut() -> bool>
    });
    rayon::verif_split_oracle::set(Some(oracle));
    // a panic inside the parallel query must not leave the oracle installed
    let out = match std::panic::catch_unwind(std::panic::AssertUnwindSafe(f)) {
        Ok(v) => v,
        Err(p) => {
            let old = rayon::verif_split_oracle::set(None);
            arena::with_system(|| drop(old));
            std::panic::resume_unwind(p);
        }
    };
    let old = rayon::verif_split_oracle::set(None);
    arena::with_system(|| drop(old));
    let trace = arena::with_system(|| ex.borrow().trace.clone());
    arena::with_system(|| drop(ex));
    (out, trace)
}

fn next_prefix(trace: &[bool]) -> Option<Vec<bool>> {
    let mut i = trace.len();
    while i > 0 {
        i -= 1;
        if !trace[i] {
            let mut p = trace[..i].to_vec();
            p.push(true);
            return Some(p);
        }
    }
    None
}

// ---- view sets ----------------------------------------------------------------------------------
#[derive(Clone, Copy, Debug, PartialEq, Eq)]
enum Consumer {
    Collect,
    ForEach,
    Count,
    Any,
    /// `fold` into per-piece vectors, `reduce` by concatenation (a consumer whose folder carries state across tables)
    FoldReduce,
    /// `max` (a pure reduction: every piece's result must reach the root)
    Max,
}

struct ViewSet {
    name: &'static str,
    seq: fn(&mut W) -> Vec<Row>,
    par: fn(&mut W, Consumer) -> (Vec<Row>, u64),
}

fn bump(x: &mut u64) -> usize {
    let a = x as *mut u64 as usize;
    *x += 1_000_000;
    a
}

macro_rules! viewset {
    ($name:expr, $views:ty, $filter:ty, |$pat:pat_param| $row:expr) => {
        ViewSet {
            name: $name,
            seq: |w| w.query(Query::<$views, $filter>::new()).iter.map(|$pat| $row).collect(),
            par: |w, c| {
                let it = w.par_query(Query::<$views, $filter>::new()).iter;
                match c {
                    Consumer::Collect => (it.map(|$pat| $row).collect::<Vec<Row>>(), 0),
                    Consumer::ForEach => {
                        let m = std::sync::Mutex::new(Vec::new());
                        it.for_each(|$pat| {
                            let r = $row;
                            m.lock().unwrap().push(r);
                        });
                        (m.into_inner().unwrap(), 0)
                    }
                    Consumer::Count => (vec![], it.count() as u64),
                    Consumer::Any => (vec![], it.any(|_| true) as u64),
                    Consumer::FoldReduce => (
                        it.map(|$pat| $row)
                            .fold(Vec::new, |mut v: Vec<Row>, r| {
                                v.push(r);
                                v
                            })
                            .reduce(Vec::new, |mut a, mut b| {
                                a.append(&mut b);
                                a
                            }),
                        0,
                    ),
                    Consumer::Max => (it.map(|$pat| $row).max().into_iter().collect(), 0),
                }
            },
        }
    };
}

fn viewsets() -> Vec<ViewSet> {
    vec![
        viewset!("&A", Views!(&A), filter::None, |result!(a)| Row { id: None, vals: vec![Some(Some(a.0))], muts: vec![] }),
        viewset!("&mut A", Views!(&mut A), filter::None, |result!(a)| { let v = a.0; let m = bump(&mut a.0); Row { id: None, vals: vec![Some(Some(v))], muts: vec![m] } }),
        viewset!("Option<&B>,id", Views!(Option<&B>, entity::Identifier), filter::None, |result!(b, id)| Row { id: Some(idp(id)), vals: vec![Some(b.map(|b| b.0))], muts: vec![] }),
        viewset!("Option<&mut B>,id", Views!(Option<&mut B>, entity::Identifier), filter::None, |result!(b, id)| { let (v, m) = match b { Some(b) => { let v = b.0; (Some(v), vec![bump(&mut b.0)]) } None => (None, vec![]) }; Row { id: Some(idp(id)), vals: vec![Some(v)], muts: m } }),
        viewset!("id", Views!(entity::Identifier), filter::None, |result!(id)| Row { id: Some(idp(id)), vals: vec![], muts: vec![] }),
        viewset!("()", Views!(), filter::None, |result!()| Row { id: None, vals: vec![], muts: vec![] }),
        viewset!("&mut A,Option<&mut B>,&C", Views!(&mut A, Option<&mut B>, &C), filter::None, |result!(a, b, c)| {
            let va = a.0; let mut m = vec![bump(&mut a.0)];
            let vb = match b { Some(b) => { let v = b.0; m.push(bump(&mut b.0)); Some(v) } None => None };
            Row { id: None, vals: vec![Some(Some(va)), Some(vb), Some(Some(c.0))], muts: m }
        }),
        viewset!("Option<&mut A>,Option<&B>,id,&mut C", Views!(Option<&mut A>, Option<&B>, entity::Identifier, &mut C), filter::None, |result!(a, b, id, c)| {
            let mut m = vec![];
            let va = match a { Some(a) => { let v = a.0; m.push(bump(&mut a.0)); Some(v) } None => None };
            let vc = c.0; m.push(bump(&mut c.0));
            Row { id: Some(idp(id)), vals: vec![Some(va), Some(b.map(|b| b.0)), Some(Some(vc))], muts: m }
        }),
        viewset!("&A,Option<&C>,id", Views!(&A, Option<&C>, entity::Identifier), filter::None, |result!(a, c, id)| Row { id: Some(idp(id)), vals: vec![Some(Some(a.0)), Some(c.map(|c| c.0))], muts: vec![] }),
        viewset!("&B,&mut C,Option<&A>", Views!(&B, &mut C, Option<&A>), filter::None, |result!(b, c, a)| { let vc = c.0; let m = bump(&mut c.0); Row { id: None, vals: vec![Some(Some(b.0)), Some(Some(vc)), Some(a.map(|a| a.0))], muts: vec![m] } }),
        viewset!("&A|Has<B>", Views!(&A), filter::Has<B>, |result!(a)| Row { id: None, vals: vec![Some(Some(a.0))], muts: vec![] }),
        viewset!("&mut A,id|Not<Has<C>>", Views!(&mut A, entity::Identifier), filter::Not<filter::Has<C>>, |result!(a, id)| { let v = a.0; let m = bump(&mut a.0); Row { id: Some(idp(id)), vals: vec![Some(Some(v))], muts: vec![m] } }),
    ]
}

fn specs(tier: &str) -> Vec<Spec> {
    let maxlen = if tier == "quick" { 3 } else { 4 };
    let mut v = Vec::new();
    // every assignment of {absent, created-but-empty, 1..=maxlen rows} to the tables {A}, {A,B}, {A,B,C}
    let opts: Vec<Option<(usize, bool)>> = std::iter::once(None).chain(std::iter::once(Some((0, true)))).chain((1..=maxlen).map(|n| Some((n, false)))).collect();
    for x in &opts {
        for y in &opts {
            for z in &opts {
                let mut t = Vec::new();
                for (mask, o) in [(1u8, x), (3, y), (7, z)] {
                    if let Some((rows, ghost)) = o {
                        t.push((mask, *rows, *ghost));
                    }
                }
                v.push(Spec { tables: t });
            }
        }
    }
    // many tables: bucket ranges of the archetype table that do split (hashbrown refuses to split <= 16 buckets)
    let mut t20: Vec<(u8, usize, bool)> = (1..=20u8).map(|m| (m, 1, false)).collect();
    t20[2].1 = 2;
    t20[10].1 = 2;
    v.push(Spec { tables: t20 });
    if tier != "quick" {
        let mut t32: Vec<(u8, usize, bool)> = (0..32u8).map(|m| (m, 1, false)).collect();
        t32[7].1 = 2;
        t32[20].2 = true;
        v.push(Spec { tables: t32 });
    }
    v
}

fn main() {
    let args: Vec<String> = std::env::args().collect();
    let mut tier = "quick".to_string();
    let mut evidence: Option<String> = None;
    let mut replay: Option<String> = None;
    let mut i = 1;
    while i < args.len() {
        match args[i].as_str() {
            "--tier" => { tier = args[i + 1].clone(); i += 1 }
            "--evidence" => { evidence = Some(args[i + 1].clone()); i += 1 }
            "--replay" => { replay = Some(args[i + 1].clone()); i += 1 }
            x => panic!("unknown argument {x}"),
        }
        i += 1;
    }
    util::install_crash_handler();
    util::install_quiet_panic_hook();
    let t0 = Instant::now();
    let pool = rayon::ThreadPoolBuilder::new().num_threads(1).build().unwrap();
    let (found, stats, samples) = pool.install(|| {
        arena::init_thread(0);
        let vs = viewsets();
        let mut all_specs = specs(&tier);
        let mut only: Option<(usize, String, Vec<bool>, String)> = None;
        if let Some(p) = &replay {
            let j: serde_json::Value = serde_json::from_str(&std::fs::read_to_string(p).unwrap()).unwrap();
            all_specs = specs(j["tier"].as_str().unwrap_or("quick"));
            only = Some((j["world_index"].as_u64().unwrap() as usize, j["views"].as_str().unwrap().to_string(), j["answers"].as_array().unwrap().iter().map(|x| x.as_bool().unwrap()).collect(), j["consumer"].as_str().unwrap().to_string()));
        }
        let mut found: Vec<(String, String, String)> = Vec::new();
        let mut stats: BTreeMap<&'static str, u64> = BTreeMap::new();
        let mut samples: Vec<String> = Vec::new();
        let mut max_trees = 0u64;
        for (si, spec) in all_specs.iter().enumerate() {
            for v in &vs {
                for consumer in [Consumer::Collect, Consumer::ForEach, Consumer::Count, Consumer::Any, Consumer::FoldReduce, Consumer::Max] {
                    if let Some((wi, vn, _, cn)) = &only {
                        if *wi != si || vn != v.name || *cn != format!("{:?}", consumer) {
                            continue;
                        }
                    }
                    // sequential reference
                    arena::begin(0);
                    let (mut seq_rows, seq_after) = {
                        let mut w = build(spec);
                        let rows = (v.seq)(&mut w);
                        let after = (viewsets_all_values)(&mut w);
                        arena::with_system(|| (rows.clone(), after.clone()))
                    };
                    let _ = arena::end();
                    seq_rows.sort();
                    let mut prefix: Vec<bool> = only.as_ref().map_or(vec![], |o| o.2.clone());
                    let mut trees = 0u64;
                    loop {
                        util::set_crash_descriptor(&format!("engine=split world={} views={} consumer={:?} answers={:?}", si, v.name, consumer, prefix));
                        arena::begin(0);
                        let attempt = std::panic::catch_unwind(std::panic::AssertUnwindSafe(|| {
                            let mut w = build(spec);
                            let ((rows, scalar), trace) = with_oracle(&prefix, || (v.par)(&mut w, consumer));
                            let after = (viewsets_all_values)(&mut w);
                            arena::with_system(|| ((rows.clone(), scalar, after.clone()), trace))
                        }));
                        let rep = arena::end();
                        let ((rows, scalar, after), trace) = match attempt {
                            Ok(x) => x,
                            Err(p) => {
                                // an unwinding panic inside the parallel query: the sequential query answered, so this is a
                                // difference between the two; the rest of this configuration's split trees is unknown
                                drop(p);
                                let msg = util::take_last_panic();
                                let replay_json = format!("{{\"engine\":\"split\",\"tier\":\"{}\",\"world_index\":{},\"world\":{:?},\"views\":\"{}\",\"consumer\":\"{:?}\",\"answers\":{:?}}}", tier, si, spec.tables.iter().map(|t| (t.0, t.1)).collect::<Vec<_>>(), v.name, consumer, prefix).replace('(', "[").replace(')', "]");
                                if !found.iter().any(|f| f.0 == "par-query-panicked") {
                                    found.push(("par-query-panicked".to_string(), format!("views {} world {:?} answers {:?}: {}", v.name, spec.tables, prefix, msg), replay_json));
                                }
                                *stats.entry("executions").or_default() += 1;
                                break;
                            }
                        };
                        trees += 1;
                        *stats.entry("executions").or_default() += 1;
                        *stats.entry("split_decisions").or_default() += trace.len() as u64;
                        *stats.entry("splits_taken").or_default() += trace.iter().filter(|b| **b).count() as u64;
                        let replay_json = format!("{{\"engine\":\"split\",\"tier\":\"{}\",\"world_index\":{},\"world\":{:?},\"views\":\"{}\",\"consumer\":\"{:?}\",\"answers\":{:?}}}", tier, si, spec.tables.iter().map(|t| (t.0, t.1)).collect::<Vec<_>>(), v.name, consumer, trace).replace('(', "[").replace(')', "]");
                        let mut fail = |key: &str, detail: String| {
                            if !found.iter().any(|f| f.0 == key) {
                                found.push((key.to_string(), detail, replay_json.clone()));
                            }
                        };
                        match consumer {
                            Consumer::Collect | Consumer::ForEach | Consumer::FoldReduce => {
                                let ordered_same = consumer == Consumer::Collect && rows.iter().map(|r| (&r.id, &r.vals)).eq(arena_free_sorted(&seq_rows, &rows).iter().map(|r| (&r.id, &r.vals)));
                                let _ = ordered_same;
                                let mut r2: Vec<Row> = rows.clone();
                                r2.sort();
                                let strip = |v: &Vec<Row>| v.iter().map(|r| (r.id, r.vals.clone())).collect::<Vec<_>>();
                                if strip(&r2) != strip(&seq_rows) {
                                    fail("par-result-multiset-differs-from-sequential", format!("views {} world {:?} answers {:?}: par {} rows, sequential {} rows", v.name, spec.tables, trace, rows.len(), seq_rows.len()));
                                }
                                let mut addrs: Vec<usize> = rows.iter().flat_map(|r| r.muts.iter().copied()).collect();
                                let n = addrs.len();
                                addrs.sort();
                                addrs.dedup();
                                if addrs.len() != n {
                                    fail("mutable-reference-handed-out-twice", format!("views {} world {:?} answers {:?}", v.name, spec.tables, trace));
                                }
                                if after != seq_after {
                                    fail("par-update-outcome-differs-from-sequential", format!("views {} world {:?} answers {:?}", v.name, spec.tables, trace));
                                }
                            }
                            Consumer::Count => {
                                if scalar as usize != seq_rows.len() {
                                    fail("par-count-differs", format!("views {} world {:?} answers {:?}: {} vs {}", v.name, spec.tables, trace, scalar, seq_rows.len()));
                                }
                            }
                            Consumer::Max => {
                                // the rows' own order: (identifier, values) first; addresses differ between the two worlds
                                let strip = |r: &Row| (r.id, r.vals.clone());
                                let want = seq_rows.iter().map(strip).max();
                                let got = rows.iter().map(strip).max();
                                if rows.len() > 1 || got != want {
                                    fail("par-max-differs", format!("views {} world {:?} answers {:?}: {:?} vs {:?}", v.name, spec.tables, trace, got, want));
                                }
                                if after != seq_after {
                                    fail("par-update-outcome-differs-from-sequential", format!("views {} world {:?} answers {:?}", v.name, spec.tables, trace));
                                }
                            }
                            Consumer::Any => {
                                if (scalar != 0) != !seq_rows.is_empty() {
                                    fail("par-any-differs", format!("views {} world {:?} answers {:?}", v.name, spec.tables, trace));
                                }
                            }
                        }
                        if !rep.errors.is_empty() {
                            fail("allocator-misuse", rep.describe());
                        }
                        if only.is_some() {
                            println!("replayed: {} rows, scalar {}, answers {:?}", rows.len(), scalar, trace);
                            break;
                        }
                        if samples.len() < 4 && trace.iter().filter(|b| **b).count() >= 2 && trees % 3 == 0 {
                            samples.push(replay_json.clone());
                        }
                        match next_prefix(&trace) {
                            Some(p) => prefix = p,
                            None => break,
                        }
                        if trees > 2_000_000 {
                            fail("MACHINERY-tree-cap", format!("{} {}", si, v.name));
                            break;
                        }
                    }
                    *stats.entry("configurations").or_default() += 1;
                    max_trees = max_trees.max(trees);
                }
            }
        }
        stats.insert("max_split_trees_of_one_configuration", max_trees);
        stats.insert("worlds", all_specs.len() as u64);
        stats.insert("view_sets", vs.len() as u64);
        (found, stats, samples)
    });
    for (k, d, r) in &found {
        println!("FOUND property=C09 key={} :: {} :: REPLAY {}", k.replace(' ', "_"), d, r);
    }
    println!("config split: {:?} [{:.1}s]", stats, t0.elapsed().as_secs_f64());
    if let Some(p) = evidence {
        let ev = serde_json::json!({"coverage": {"states": stats["configurations"], "transitions": stats["executions"], "samples": samples.iter().map(|s| serde_json::from_str::<serde_json::Value>(s).unwrap_or_default()).collect::<Vec<_>>(), "stats": stats,
            "explanation": "every answer sequence of rayon's Splitter::try_split (= every split tree) for every (world, view set, consumer) configuration, executed on the real par_query on a 1-thread pool"}});
        std::fs::write(p, serde_json::to_string_pretty(&ev).unwrap()).unwrap();
    }
    std::process::exit(if found.iter().any(|f| f.0.starts_with("MACHINERY")) { 2 } else if found.is_empty() { 0 } else { 1 });
}

/// All component values of the world after the run (to compare update outcomes).
fn viewsets_all_values(w: &mut W) -> Vec<(Id, [Option<u64>; 3])> {
    let mut v: Vec<(Id, [Option<u64>; 3])> = w
        .query(Query::<Views!(entity::Identifier, Option<&A>, Option<&B>, Option<&C>)>::new())
        .iter
        .map(|result!(id, a, b, c)| (idp(id), [a.map(|x| x.0), b.map(|x| x.0), c.map(|x| x.0)]))
        .collect();
    v.sort();
    v
}

fn arena_free_sorted<'a>(_seq: &'a [Row], rows: &'a [Row]) -> &'a [Row] {
    rows
}
