//! The main history harness: a 4-component registry mixing heap-owning, zero-sized, over-aligned and
//! small components, two resources, the reference model, the operation interpreter with its
//! per-property oracles, the structural audit and the canonical state.

use crate::arena;
use crate::comp::{self, Big, Comp, Heap, Small, TokErr, Zst};
use brood::{
    entities::Batch,
    entity,
    query::{filter, result, Views},
    resources, Entity, Query, Registry, Resources, World,
};
use std::collections::{BTreeMap, BTreeSet};

pub type A = Heap<0>;
pub type Z = Zst<1>;
pub type O = Big<2>;
pub type B = Small<3>;
pub type Reg = Registry!(A, Z, O, B);
pub type R0 = Small<10>;
pub type R1 = Heap<11>;
pub type Res = Resources!(R0, R1);
pub type W = World<Reg, Res>;
pub type Id = (usize, u64);
pub const NC: usize = 4;
pub const NAMES: [&str; 4] = ["A", "Z", "O", "B"];

pub fn idp(i: entity::Identifier) -> Id {
    i.verif_parts()
}
pub fn mkid(i: Id) -> entity::Identifier {
    entity::Identifier::verif_from_parts(i.0, i.1)
}

// ---------------------------------------------------------------------------------------------
// Properties and failures

#[derive(Clone, Copy, Debug, PartialEq, Eq, PartialOrd, Ord, Hash)]
pub enum Prop {
    C01,
    C02,
    /// only the wide-registry harnesses report under C03 (which entities a query over a high component position selects)
    C03,
    C04,
    C05,
    C06,
    C10,
    C13,
    C15,
    C16,
}
impl Prop {
    pub fn name(self) -> &'static str {
        match self {
            Prop::C01 => "C01",
            Prop::C02 => "C02",
            Prop::C03 => "C03",
            Prop::C04 => "C04",
            Prop::C05 => "C05",
            Prop::C06 => "C06",
            Prop::C10 => "C10",
            Prop::C13 => "C13",
            Prop::C15 => "C15",
            Prop::C16 => "C16",
        }
    }
    pub fn parse(s: &str) -> Option<Prop> {
        [Prop::C01, Prop::C02, Prop::C03, Prop::C04, Prop::C05, Prop::C06, Prop::C10, Prop::C13, Prop::C15, Prop::C16]
            .into_iter()
            .find(|p| p.name() == s)
    }
}

#[derive(Clone, Debug)]
pub struct Failure {
    pub prop: Prop,
    /// Stable, call-site level key (used for de-duplication and for the known-findings file).
    pub key: String,
    pub detail: String,
}

#[derive(Default)]
pub struct Checker {
    pub fails: Vec<Failure>,
}
impl Checker {
    pub fn fail(&mut self, prop: Prop, key: &str, detail: String) {
        if self.fails.len() < 32 {
            self.fails.push(Failure { prop, key: key.to_string(), detail });
        }
    }
}

// ---------------------------------------------------------------------------------------------
// Model

#[derive(Clone, Debug, PartialEq, Eq)]
pub struct Model {
    pub ents: BTreeMap<Id, [Option<u32>; NC]>,
    pub issued: Vec<Id>,
    pub res: (u32, u32),
}

impl Model {
    pub fn mask_of(row: &[Option<u32>; NC]) -> u8 {
        (0..NC).fold(0, |m, i| m | ((row[i].is_some() as u8) << i))
    }
    /// Live identifiers ordered by slot index (a canonical order).
    pub fn live_by_slot(&self) -> Vec<Id> {
        self.ents.keys().copied().collect()
    }
    pub fn dead(&self) -> Vec<Id> {
        self.issued.iter().copied().filter(|i| !self.ents.contains_key(i)).collect()
    }
}

pub type SnapRow = [Option<(u32, u64)>; NC];
pub type Snap = Vec<(Id, SnapRow)>;

/// Reads the whole world through the public query API (every reference is token-checked).
pub fn snapshot(w: &mut W) -> Snap {
    let mut out: Snap = Vec::new();
    for result!(id, a, z, o, b) in w
        .query(Query::<Views!(entity::Identifier, Option<&A>, Option<&Z>, Option<&O>, Option<&B>)>::new())
        .iter
    {
        out.push((idp(id), [a.map(|c| c.read()), z.map(|c| c.read()), o.map(|c| c.read()), b.map(|c| c.read())]));
    }
    out.sort_by_key(|r| r.0);
    out
}

pub fn snap_vals(s: &Snap) -> Vec<(Id, [Option<u32>; NC])> {
    s.iter().map(|(i, r)| (*i, [r[0].map(|x| x.0), r[1].map(|x| x.0), r[2].map(|x| x.0), r[3].map(|x| x.0)])).collect()
}

pub fn model_vals(m: &Model) -> Vec<(Id, [Option<u32>; NC])> {
    m.ents.iter().map(|(i, r)| (*i, *r)).collect()
}

pub fn new_world() -> (W, (u32, u32)) {
    let (r0, r1) = (comp::fresh_val(), comp::fresh_val());
    (W::with_resources(resources!(R0::make(r0), R1::make(r1))), (r0, r1))
}

pub fn read_res(w: &W) -> ((u32, u64), (u32, u64)) {
    (w.get::<R0, _>().read(), w.get::<R1, _>().read())
}

// ---------------------------------------------------------------------------------------------
// Operations

#[derive(Clone, Copy, Debug, PartialEq, Eq)]
pub enum Tgt {
    /// live entity with the smallest slot index
    Lo,
    /// second smallest
    Mid,
    /// largest slot index
    Hi,
}

#[derive(Clone, Copy, Debug, PartialEq, Eq)]
pub enum Op {
    /// insert an entity of the given shape; `rev` writes the components in reverse registry order
    Insert { mask: u8, rev: bool },
    /// extend with `n` rows; style 0 = `Batch::new` over Vecs with spare capacity, 1 = `entities!` rows,
    /// 2 = `entities!((..); n)` (cloned prototype)
    Extend { mask: u8, n: u8, style: u8 },
    Remove(Tgt),
    /// remove every dead identifier ever issued plus fabricated ones (must all be no-ops)
    RemoveStale,
    Clear,
    Add(Tgt, u8),
    RemoveComp(Tgt, u8),
    /// write through a query: 0 `&mut A`; 1 `Option<&mut O>, &B`; 2 `&mut B` filtered `Not<Has<A>>`;
    /// 3 `Option<&mut A>, Option<&mut B>, &Z`
    MutQ(u8),
    MutEntry(Tgt),
    Reserve { mask: u8, n: u8 },
    Shrink,
    CloneSelf,
    Snapshot,
    CloneFromAux,
    CloneFromEmpty,
    SwapAux,
    RtJson,
    RtTok { human: bool },
    ResSet(u8),
    /// several operations through ONE `Entry` handle (the handle caches the entity's location):
    /// 0 add B, add A, query; 1 add Z, remove A, add O, query; 2 remove B, add B, query; 3 add O, add Z, remove O, query
    EntryChain(Tgt, u8),
    /// create a lock-step twin of the world: 0 JSON round trip, 1 compact tokens, 2 human-readable tokens,
    /// 3 `clone()`; every later operation is applied to both and the two must stay identical
    Twin(u8),
}

impl Op {
    pub fn kind(&self) -> &'static str {
        match self {
            Op::Insert { .. } => "insert",
            Op::Extend { .. } => "extend",
            Op::Remove(_) => "remove",
            Op::RemoveStale => "remove_stale",
            Op::Clear => "clear",
            Op::Add(..) => "entry_add",
            Op::RemoveComp(..) => "entry_remove",
            Op::MutQ(_) => "mut_query",
            Op::MutEntry(_) => "mut_entry",
            Op::EntryChain(..) => "entry_chain",
            Op::Reserve { .. } => "reserve",
            Op::Shrink => "shrink_to_fit",
            Op::CloneSelf => "clone",
            Op::Snapshot => "snapshot",
            Op::CloneFromAux => "clone_from",
            Op::CloneFromEmpty => "clone_from_empty",
            Op::SwapAux => "swap_aux",
            Op::RtJson => "rt_json",
            Op::RtTok { .. } => "rt_tok",
            Op::ResSet(_) => "res_set",
            Op::Twin(0) => "twin_json",
            Op::Twin(1) => "twin_tok_compact",
            Op::Twin(2) => "twin_tok_hr",
            Op::Twin(_) => "twin_clone",
        }
    }
}

macro_rules! with_shape {
    ($mask:expr, $m:ident) => {
        match $mask {
            0 => $m!(),
            1 => $m!(A),
            2 => $m!(Z),
            3 => $m!(A, Z),
            4 => $m!(O),
            5 => $m!(A, O),
            6 => $m!(Z, O),
            7 => $m!(A, Z, O),
            8 => $m!(B),
            9 => $m!(A, B),
            10 => $m!(Z, B),
            11 => $m!(A, Z, B),
            12 => $m!(O, B),
            13 => $m!(A, O, B),
            14 => $m!(Z, O, B),
            15 => $m!(A, Z, O, B),
            _ => unreachable!(),
        }
    };
}
macro_rules! with_shape_rev {
    ($mask:expr, $m:ident) => {
        match $mask {
            0 => $m!(),
            1 => $m!(A),
            2 => $m!(Z),
            3 => $m!(Z, A),
            4 => $m!(O),
            5 => $m!(O, A),
            6 => $m!(O, Z),
            7 => $m!(O, A, Z),
            8 => $m!(B),
            9 => $m!(B, A),
            10 => $m!(B, Z),
            11 => $m!(Z, B, A),
            12 => $m!(B, O),
            13 => $m!(B, A, O),
            14 => $m!(O, B, Z),
            15 => $m!(B, Z, A, O),
            _ => unreachable!(),
        }
    };
}

/// Component index of a harness type.
pub trait Pos {
    const POS: usize;
}
impl Pos for A {
    const POS: usize = 0;
}
impl Pos for Z {
    const POS: usize = 1;
}
impl Pos for O {
    const POS: usize = 2;
}
impl Pos for B {
    const POS: usize = 3;
}

fn mk<C: Comp + Pos>(row: &mut [Option<u32>; NC]) -> C {
    let v = if C::IS_ZST { 0 } else { comp::fresh_val() };
    row[C::POS] = Some(v);
    C::make(v)
}

fn mkvec<C: Comp + Pos>(rows: &mut [[Option<u32>; NC]], spare: usize) -> Vec<C> {
    let mut v = Vec::with_capacity(rows.len() + spare);
    for r in rows.iter_mut() {
        v.push(mk::<C>(r));
    }
    v
}

pub struct Exec {
    pub w: W,
    pub aux: Option<W>,
    pub m: Model,
    pub maux: Option<Model>,
    /// per-precondition-class counters, reported in the evidence
    pub class: Option<&'static str>,
    /// lock-step twin (a deserialized or cloned copy that receives every later operation too)
    pub twin: Option<Box<Exec>>,
    pub twin_kind: u8,
}

#[derive(Debug, PartialEq, Eq)]
pub enum Step {
    Done,
    Disabled,
}

impl Exec {
    pub fn new() -> Exec {
        let (w, res) = new_world();
        Exec { w, aux: None, m: Model { ents: BTreeMap::new(), issued: Vec::new(), res }, maux: None, class: None, twin: None, twin_kind: 0 }
    }

    fn target(&self, t: Tgt) -> Option<Id> {
        let live = self.m.live_by_slot();
        match t {
            Tgt::Lo => live.first().copied(),
            Tgt::Mid => live.get(1).copied(),
            Tgt::Hi => {
                if live.len() >= 3 {
                    live.last().copied()
                } else {
                    None
                }
            }
        }
    }

    fn issue(&mut self, id: Id, row: [Option<u32>; NC], chk: &mut Checker, op: &Op) {
        if self.m.issued.contains(&id) {
            chk.fail(Prop::C02, &format!("reissued-identifier op={}", op.kind()), format!("identifier {:?} was issued before", id));
        }
        self.m.issued.push(id);
        self.m.ents.insert(id, row);
    }

    /// Applies one operation to the real world and to the model.  Oracles that concern the
    /// operation's own return value are evaluated here.
    pub fn apply(&mut self, op: &Op, chk: &mut Checker) -> Step {
        if let Op::Twin(kind) = *op {
            if self.twin.is_some() || self.aux.is_some() {
                return Step::Disabled;
            }
            let prop = if kind == 3 { Prop::C10 } else { Prop::C06 };
            let made = match kind {
                0 => rt_json(&self.w),
                1 => rt_tok(&self.w, false),
                2 => rt_tok(&self.w, true),
                _ => Ok(self.w.clone()),
            };
            match made {
                Err(e) => chk.fail(prop, &format!("roundtrip-failed op={}", op.kind()), e),
                Ok(w2) => {
                    if !(self.w == w2) || !(w2 == self.w) {
                        chk.fail(prop, &format!("copy-not-equal op={}", op.kind()), format!("original == copy: {}, copy == original: {}", self.w == w2, w2 == self.w));
                    }
                    let (mut c1, mut c2) = (Vec::new(), Vec::new());
                    canon_world(&self.w.verif_dump(), &mut c1, false);
                    canon_world(&w2.verif_dump(), &mut c2, false);
                    if c1 != c2 {
                        chk.fail(prop, &format!("copy-structure-differs op={}", op.kind()), format!("slots / free list / rows differ: {:?} vs {:?}", c1, c2));
                    }
                    self.twin = Some(Box::new(Exec { w: w2, aux: None, m: self.m.clone(), maux: None, class: None, twin: None, twin_kind: kind }));
                    self.twin_kind = kind;
                }
            }
            return Step::Done;
        }
        if self.twin.is_some() && *op == Op::Clear {
            // `clear` releases identifiers in table iteration order, which depends on heap addresses: with
            // several populated tables the order in which identifiers are reissued afterwards is not a
            // function of the world's contents, so lock-step identity is undefined (DESIGN.md, C06 notes).
            let populated = self.w.verif_dump().archetypes.iter().filter(|a| a.length > 0).count();
            if populated > 1 {
                return Step::Disabled;
            }
        }
        let v0 = comp::with_ledger(|l| l.next_val).unwrap_or(0);
        let step = self.apply_inner(op, chk);
        if let Some(t) = self.twin.as_mut() {
            let v1 = comp::with_ledger(|l| std::mem::replace(&mut l.next_val, v0)).unwrap_or(0);
            let mut sub = Checker::default();
            let step2 = t.apply_inner(op, &mut sub);
            comp::with_ledger(|l| l.next_val = l.next_val.max(v1));
            let prop = if self.twin_kind == 3 { Prop::C10 } else { Prop::C06 };
            if step2 != step {
                chk.fail(prop, &format!("twin-diverged-enabledness op={}", op.kind()), format!("original {:?}, twin {:?}", step, step2));
            }
            for f in sub.fails {
                chk.fail(prop, &format!("twin-misbehaves op={} ({})", op.kind(), f.key), f.detail);
            }
        }
        step
    }

    fn apply_inner(&mut self, op: &Op, chk: &mut Checker) -> Step {
        match *op {
            Op::Insert { mask, rev } => {
                let mut row = [None; NC];
                let w = &mut self.w;
                macro_rules! ins {
                    ($($c:ident),*) => { w.insert(brood::entity!($(mk::<$c>(&mut row)),*)) };
                }
                let id = if rev { with_shape_rev!(mask, ins) } else { with_shape!(mask, ins) };
                self.issue(idp(id), row, chk, op);
            }
            Op::Extend { mask, n, style } => {
                let n = n as usize;
                let mut rows = vec![[None; NC]; n];
                let free_before = self.w.verif_dump().free.len();
                self.class = Some(if free_before == 0 {
                    "extend:free=0"
                } else if n < free_before {
                    "extend:batch<free"
                } else if n == free_before {
                    "extend:batch=free"
                } else {
                    "extend:batch>free"
                });
                let w = &mut self.w;
                let ids: Vec<entity::Identifier> = match style {
                    0 => {
                        macro_rules! ext {
                            () => { w.extend(Batch::new(brood::entities::Null)) };
                            ($($c:ident),+) => { w.extend(Batch::new(ext!(@l $($c),+))) };
                            (@l $c:ident) => { (mkvec::<$c>(&mut rows, 3), brood::entities::Null) };
                            (@l $c:ident, $($r:ident),+) => { (mkvec::<$c>(&mut rows, 3), ext!(@l $($r),+)) };
                        }
                        with_shape_rev!(mask, ext)
                    }
                    1 => {
                        // entities! with explicit rows (row-major construction, transposed by the macro)
                        macro_rules! ext {
                            () => { w.extend(brood::entities!()) };
                            ($($c:ident),+) => {
                                match n {
                                    0 => w.extend(Batch::new(ext!(@l $($c),+))),
                                    1 => w.extend(brood::entities!(($(mk::<$c>(&mut rows[0])),+))),
                                    2 => w.extend(brood::entities!(($(mk::<$c>(&mut rows[0])),+), ($(mk::<$c>(&mut rows[1])),+))),
                                    _ => w.extend(brood::entities!(($(mk::<$c>(&mut rows[0])),+), ($(mk::<$c>(&mut rows[1])),+), ($(mk::<$c>(&mut rows[2])),+))),
                                }
                            };
                            (@l $c:ident) => { (Vec::<$c>::new(), brood::entities::Null) };
                            (@l $c:ident, $($r:ident),+) => { (Vec::<$c>::new(), ext!(@l $($r),+)) };
                        }
                        with_shape!(mask, ext)
                    }
                    _ => {
                        // entities!((proto..); n): n clones of one prototype row (values equal within the batch)
                        let mut proto = [None; NC];
                        macro_rules! ext {
                            () => { w.extend(brood::entities!((); n)) };
                            ($($c:ident),+) => { w.extend(brood::entities!(($(mk::<$c>(&mut proto)),+); n)) };
                        }
                        let ids = with_shape!(mask, ext);
                        for r in rows.iter_mut() {
                            *r = proto;
                        }
                        ids
                    }
                };
                // `entities!((); n)` and `entities!()` build a batch of zero columns whose row count is 0.
                let expect = if mask == 0 { 0 } else { n };
                if ids.len() != expect {
                    chk.fail(Prop::C01, "extend-returned-count", format!("extend of {} rows returned {} identifiers", expect, ids.len()));
                }
                let mut seen = BTreeSet::new();
                for (i, id) in ids.iter().enumerate() {
                    if !seen.insert(idp(*id)) {
                        chk.fail(Prop::C02, "extend-duplicate-identifier", format!("identifier {:?} returned twice by one extend", idp(*id)));
                    }
                    if i < rows.len() {
                        let row = rows[i];
                        self.issue(idp(*id), row, chk, op);
                    }
                }
            }
            Op::Remove(t) => {
                let Some(id) = self.target(t) else { return Step::Disabled };
                self.w.remove(mkid(id));
                self.m.ents.remove(&id);
            }
            Op::RemoveStale => {
                let dead = self.m.dead();
                let d = self.w.verif_dump();
                let mut fabricated = vec![(d.slots.len(), 0), (d.slots.len() + 7, 3)];
                for (i, s) in d.slots.iter().enumerate() {
                    fabricated.push((i, s.generation.wrapping_add(1)));
                }
                if dead.is_empty() && d.slots.is_empty() {
                    return Step::Disabled;
                }
                for id in dead.into_iter().chain(fabricated) {
                    if !self.m.ents.contains_key(&id) {
                        self.w.remove(mkid(id));
                    }
                }
            }
            Op::Clear => {
                self.w.clear();
                self.m.ents.clear();
            }
            Op::Add(t, c) => {
                let Some(id) = self.target(t) else { return Step::Disabled };
                let Some(mut e) = self.w.entry(mkid(id)) else {
                    chk.fail(Prop::C02, "entry-none-for-live", format!("entry({:?}) is None for a live identifier", id));
                    return Step::Done;
                };
                let row = self.m.ents.get_mut(&id).unwrap();
                self.class = Some(if row[c as usize].is_some() { "add:overwrite" } else { "add:new-shape" });
                match c {
                    0 => e.add(mk::<A>(row)),
                    1 => e.add(mk::<Z>(row)),
                    2 => e.add(mk::<O>(row)),
                    _ => e.add(mk::<B>(row)),
                }
            }
            Op::RemoveComp(t, c) => {
                let Some(id) = self.target(t) else { return Step::Disabled };
                let Some(mut e) = self.w.entry(mkid(id)) else {
                    chk.fail(Prop::C02, "entry-none-for-live", format!("entry({:?}) is None for a live identifier", id));
                    return Step::Done;
                };
                let row = self.m.ents.get_mut(&id).unwrap();
                self.class = Some(if row[c as usize].is_some() { "entry_remove:present" } else { "entry_remove:absent" });
                match c {
                    0 => e.remove::<A, _>(),
                    1 => e.remove::<Z, _>(),
                    2 => e.remove::<O, _>(),
                    _ => e.remove::<B, _>(),
                }
                row[c as usize] = None;
            }
            Op::MutQ(v) => {
                if self.m.ents.is_empty() {
                    return Step::Disabled;
                }
                let mut writes: Vec<(Id, usize, u32)> = Vec::new();
                // new values depend on (operation, entity, component) only, never on iteration order
                let base = comp::fresh_val() << 8;
                let val_for = |id: entity::Identifier, c: u32| base + ((idp(id).0 as u32 & 0x3f) << 2) + c;
                match v {
                    0 => {
                        for result!(id, a) in self.w.query(Query::<Views!(entity::Identifier, &mut A)>::new()).iter {
                            let nv = val_for(id, 0);
                            a.set(nv);
                            writes.push((idp(id), 0, nv));
                        }
                    }
                    1 => {
                        for result!(o, b, id) in self.w.query(Query::<Views!(Option<&mut O>, &B, entity::Identifier)>::new()).iter {
                            b.read();
                            if let Some(o) = o {
                                let nv = val_for(id, 2);
                                o.set(nv);
                                writes.push((idp(id), 2, nv));
                            }
                        }
                    }
                    2 => {
                        for result!(b, id) in
                            self.w.query(Query::<Views!(&mut B, entity::Identifier), filter::Not<filter::Has<A>>>::new()).iter
                        {
                            let nv = val_for(id, 3);
                            b.set(nv);
                            writes.push((idp(id), 3, nv));
                        }
                    }
                    _ => {
                        for result!(a, id, b, z) in
                            self.w.query(Query::<Views!(Option<&mut A>, entity::Identifier, Option<&mut B>, &Z)>::new()).iter
                        {
                            z.read();
                            if let Some(a) = a {
                                let nv = val_for(id, 0);
                                a.set(nv);
                                writes.push((idp(id), 0, nv));
                            }
                            if let Some(b) = b {
                                let nv = val_for(id, 3);
                                b.set(nv);
                                writes.push((idp(id), 3, nv));
                            }
                        }
                    }
                }
                for (id, c, nv) in writes {
                    match self.m.ents.get_mut(&id) {
                        Some(row) if row[c].is_some() => row[c] = Some(nv),
                        _ => chk.fail(Prop::C01, "query-yielded-nonmatching", format!("query variant {} yielded {:?} which lacks component {}", v, id, NAMES[c])),
                    }
                }
            }
            Op::MutEntry(t) => {
                let Some(id) = self.target(t) else { return Step::Disabled };
                let Some(mut e) = self.w.entry(mkid(id)) else {
                    chk.fail(Prop::C02, "entry-none-for-live", format!("entry({:?}) is None for a live identifier", id));
                    return Step::Done;
                };
                let row = self.m.ents.get_mut(&id).unwrap();
                match e.query(Query::<Views!(&mut B, Option<&mut A>)>::new()) {
                    Some(result!(b, a)) => {
                        if row[3].is_none() {
                            chk.fail(Prop::C01, "entry-query-some-without-component", format!("{:?} has no B", id));
                        } else {
                            let nv = comp::fresh_val();
                            b.set(nv);
                            row[3] = Some(nv);
                        }
                        if let Some(a) = a {
                            let nv = comp::fresh_val();
                            a.set(nv);
                            if row[0].is_none() {
                                chk.fail(Prop::C01, "entry-query-some-without-component", format!("{:?} has no A", id));
                            }
                            row[0] = Some(nv);
                        } else if row[0].is_some() {
                            chk.fail(Prop::C01, "entry-query-none-with-component", format!("{:?} has A", id));
                        }
                    }
                    None => {
                        if row[3].is_some() {
                            chk.fail(Prop::C01, "entry-query-none-with-component", format!("{:?} has B", id));
                        }
                    }
                }
            }
            Op::EntryChain(t, v) => {
                let Some(id) = self.target(t) else { return Step::Disabled };
                let Some(mut e) = self.w.entry(mkid(id)) else {
                    chk.fail(Prop::C02, "entry-none-for-live", format!("entry({:?}) is None for a live identifier", id));
                    return Step::Done;
                };
                let row = self.m.ents.get_mut(&id).unwrap();
                match v {
                    0 => {
                        e.add(mk::<B>(row));
                        e.add(mk::<A>(row));
                    }
                    1 => {
                        e.add(mk::<Z>(row));
                        e.remove::<A, _>();
                        row[0] = None;
                        e.add(mk::<O>(row));
                    }
                    2 => {
                        e.remove::<B, _>();
                        row[3] = None;
                        e.add(mk::<B>(row));
                    }
                    _ => {
                        e.add(mk::<O>(row));
                        e.add(mk::<Z>(row));
                        e.remove::<O, _>();
                        row[2] = None;
                    }
                }
                // the same handle must still denote the same entity
                match e.query(Query::<Views!(entity::Identifier, Option<&A>, Option<&Z>, Option<&O>, Option<&B>)>::new()) {
                    Some(result!(qid, a, z, o, b)) => {
                        let got = [a.map(|c| c.read().0), z.map(|c| c.read().0), o.map(|c| c.read().0), b.map(|c| c.read().0)];
                        if idp(qid) != id || &got != row {
                            chk.fail(Prop::C01, "entry-handle-denotes-other-entity op=entry_chain", format!("handle for {:?} reads {:?} = {:?}, model {:?}", id, idp(qid), got, row));
                            chk.fail(Prop::C02, "entry-handle-denotes-other-entity op=entry_chain", format!("handle for {:?} reads {:?}", id, idp(qid)));
                        }
                    }
                    None => chk.fail(Prop::C01, "entry-handle-query-none op=entry_chain", format!("{:?}", id)),
                }
            }
            Op::Reserve { mask, n } => {
                let w = &mut self.w;
                let n = n as usize;
                macro_rules! rsv {
                    ($($c:ident),*) => { w.reserve::<Entity!($($c),*), _>(n) };
                }
                with_shape_rev!(mask, rsv);
            }
            Op::Shrink => self.w.shrink_to_fit(),
            Op::CloneSelf => {
                let c = self.w.clone();
                self.w = c;
            }
            Op::Snapshot => {
                self.aux = Some(self.w.clone());
                self.maux = Some(self.m.clone());
            }
            Op::CloneFromAux => {
                let Some(aux) = self.aux.as_ref() else { return Step::Disabled };
                self.w.clone_from(aux);
                self.m = self.maux.clone().unwrap();
            }
            Op::CloneFromEmpty => {
                let (e, res) = new_world();
                self.w.clone_from(&e);
                self.m = Model { ents: BTreeMap::new(), issued: Vec::new(), res };
            }
            Op::SwapAux => {
                let Some(aux) = self.aux.as_mut() else { return Step::Disabled };
                std::mem::swap(&mut self.w, aux);
                std::mem::swap(&mut self.m, self.maux.as_mut().unwrap());
            }
            Op::RtJson => match rt_json(&self.w) {
                Ok(w2) => self.w = w2,
                Err(e) => {
                    // serialize + deserialize is one of the operations after which the world must hold the model's contents
                    chk.fail(Prop::C01, "roundtrip-failed enc=json", e.clone());
                    chk.fail(Prop::C06, "roundtrip-failed enc=json", e);
                }
            },
            Op::RtTok { human } => match rt_tok(&self.w, human) {
                Ok(w2) => self.w = w2,
                Err(e) => {
                    chk.fail(Prop::C01, &format!("roundtrip-failed enc=tok-{}", if human { "hr" } else { "compact" }), e.clone());
                    chk.fail(Prop::C06, &format!("roundtrip-failed enc=tok-{}", if human { "hr" } else { "compact" }), e);
                }
            },
            Op::ResSet(v) => {
                let (n0, n1) = (comp::fresh_val(), comp::fresh_val());
                match v {
                    0 => {
                        self.w.get_mut::<R0, _>().set(n0);
                        self.m.res.0 = n0;
                    }
                    1 => {
                        let result!(r1, r0) = self.w.view_resources::<Views!(&mut R1, &R0), _>();
                        r0.read();
                        r1.set(n1);
                        self.m.res.1 = n1;
                    }
                    _ => {
                        let res = self.w.query(Query::<Views!(), filter::None, Views!(&mut R0, &mut R1)>::new()).resources;
                        let result!(r0, r1) = res;
                        r0.set(n0);
                        r1.set(n1);
                        self.m.res = (n0, n1);
                    }
                }
            }
            Op::Twin(_) => return Step::Disabled,
        }
        Step::Done
    }

    /// All state oracles, evaluated after an operation.
    pub fn check_state(&mut self, chk: &mut Checker, op: &Op) {
        let k = op.kind();
        let mut owned: BTreeSet<u64> = BTreeSet::new();
        let mut zcount = 0i64;
        self.check_side(chk, k, &mut owned, &mut zcount);
        let twin_prop = if self.twin_kind == 3 { Prop::C10 } else { Prop::C06 };
        if let Some(t) = self.twin.as_mut() {
            let mut sub = Checker::default();
            t.check_side(&mut sub, k, &mut owned, &mut zcount);
            for f in sub.fails {
                chk.fail(twin_prop, &format!("twin-misbehaves op={} ({})", k, f.key), f.detail);
            }
            if t.m != self.m || t.maux != self.maux {
                let d = if t.m.issued != self.m.issued {
                    format!("identifiers issued differ: original {:?}, twin {:?}", self.m.issued, t.m.issued)
                } else {
                    first_diff(&model_vals(&t.m), &model_vals(&self.m))
                };
                chk.fail(twin_prop, &format!("twin-diverged op={}", k), d);
            }
            // the twin must share no memory with the original
            let a1 = dump_addrs(&self.w.verif_dump());
            let a2 = dump_addrs(&t.w.verif_dump());
            if let Some(x) = a1.intersection(&a2).next() {
                chk.fail(twin_prop, &format!("shared-address op={}", k), format!("original and twin both reference {:#x}", x));
            }
        }
        // C04: ledger live set == serials owned by the worlds
        let live: BTreeSet<u64> = comp::with_ledger(|l| l.live_serials().into_iter().collect()).unwrap_or_default();
        if live != owned {
            let extra: Vec<u64> = live.difference(&owned).copied().collect();
            let missing: Vec<u64> = owned.difference(&live).copied().collect();
            if !extra.is_empty() {
                chk.fail(Prop::C04, &format!("not-dropped op={}", k), format!("values alive but owned by no world: serials {:?}", extra));
            }
            if !missing.is_empty() {
                chk.fail(Prop::C04, &format!("dropped-early op={}", k), format!("values owned by a world but already dropped: serials {:?}", missing));
            }
        }
        if comp::zst_live(1) != zcount {
            chk.fail(Prop::C04, &format!("zst-count op={}", k), format!("{} Z values alive, worlds hold {}", comp::zst_live(1), zcount));
        }
        self.check_ledger_and_arena(chk, k);
    }

    /// Oracles for one (world, aux) side against its models; accumulates the serials it owns.
    pub fn check_side(&mut self, chk: &mut Checker, k: &str, owned: &mut BTreeSet<u64>, zcount: &mut i64) {
        let snap = snapshot(&mut self.w);
        check_world_vs_model(&mut self.w, &snap, &self.m, chk, k, "world");
        collect_owned(&snap, &self.w, owned, zcount);
        if let (Some(aux), Some(maux)) = (self.aux.as_mut(), self.maux.as_ref()) {
            let asnap = snapshot(aux);
            // the auxiliary world is never the target of an operation: it must not change
            let mut sub = Checker::default();
            check_world_vs_model(aux, &asnap, maux, &mut sub, k, "aux");
            for f in sub.fails {
                // a change in the *other* world is an independence failure
                chk.fail(Prop::C10, &format!("other-world-changed op={} ({})", k, f.key), f.detail.clone());
                chk.fail(f.prop, &f.key, f.detail);
            }
            collect_owned(&asnap, aux, owned, zcount);
            audit(&aux.verif_dump(), maux, chk, k, "aux");
            // address independence between the two worlds
            let (d1, d2) = (self.w.verif_dump(), aux.verif_dump());
            let a1: BTreeSet<usize> = dump_addrs(&d1);
            let a2: BTreeSet<usize> = dump_addrs(&d2);
            if let Some(x) = a1.intersection(&a2).next() {
                chk.fail(Prop::C10, &format!("shared-address op={}", k), format!("both worlds reference address {:#x}", x));
            }
        }
        audit(&self.w.verif_dump(), &self.m, chk, k, "world");
    }

    pub fn check_ledger_and_arena(&self, chk: &mut Checker, k: &str) {
        let errs: Vec<TokErr> = comp::with_ledger(|l| l.errors.clone()).unwrap_or_default();
        for e in errs {
            match e {
                TokErr::DoubleDrop { .. } | TokErr::ZstUnderflow { .. } => chk.fail(Prop::C04, &format!("double-drop op={}", k), format!("{:?}", e)),
                _ => chk.fail(Prop::C05, &format!("bad-value-observed op={}", k), format!("{:?}", e)),
            }
        }
        if arena::error_count() > 0 {
            chk.fail(Prop::C05, &format!("allocator-misuse op={}", k), format!("{} allocator errors", arena::error_count()));
        }
    }
}

fn dump_addrs(d: &brood::verif::Dump) -> BTreeSet<usize> {
    let mut s = BTreeSet::new();
    for a in &d.archetypes {
        if a.id_cap > 0 {
            s.insert(a.id_addr);
        }
        if a.entity_col.1 > 0 {
            s.insert(a.entity_col.0);
        }
        for (i, c) in a.columns.iter().enumerate() {
            let _ = i;
            // ZST columns have a dangling pointer and a huge capacity
            if c.1 > 0 && c.1 < (1 << 40) {
                s.insert(c.0);
            }
        }
    }
    s
}

fn collect_owned(snap: &Snap, w: &W, owned: &mut BTreeSet<u64>, zcount: &mut i64) {
    for (_, row) in snap {
        for (c, x) in row.iter().enumerate() {
            if let Some((_, serial)) = x {
                if c == 1 {
                    *zcount += 1;
                } else {
                    owned.insert(*serial);
                }
            }
        }
    }
    let (r0, r1) = read_res(w);
    owned.insert(r0.1);
    owned.insert(r1.1);
}

/// C01 / C02 / C15 oracles for one world against its model.
pub fn check_world_vs_model(w: &mut W, snap: &Snap, m: &Model, chk: &mut Checker, k: &str, which: &str) {
    // C01: same identifiers, same component sets, same values
    let sv = snap_vals(snap);
    let mv = model_vals(m);
    if sv != mv {
        let detail = first_diff(&sv, &mv);
        chk.fail(Prop::C01, &format!("contents-differ op={} world={}", k, which), detail);
    }
    for i in 1..snap.len() {
        if snap[i].0 == snap[i - 1].0 {
            chk.fail(Prop::C13, &format!("identifier-on-two-rows op={}", k), format!("{:?}", snap[i].0));
        }
    }
    if w.len() != m.ents.len() || w.is_empty() != m.ents.is_empty() {
        chk.fail(Prop::C01, &format!("len-differs op={} world={}", k, which), format!("len()={} is_empty()={} model={}", w.len(), w.is_empty(), m.ents.len()));
    }
    // C15
    let (r0, r1) = read_res(w);
    if (r0.0, r1.0) != m.res {
        chk.fail(Prop::C15, &format!("resource-changed op={} world={}", k, which), format!("resources read {:?}, model {:?}", (r0.0, r1.0), m.res));
    }
    // C02: every identifier ever issued
    for &id in &m.issued {
        let live = m.ents.get(&id);
        if w.contains(mkid(id)) != live.is_some() {
            chk.fail(Prop::C02, &format!("contains-wrong live={} op={}", live.is_some(), k), format!("contains({:?}) = {}", id, !live.is_some()));
        }
        match (w.entry(mkid(id)), live) {
            (Some(mut e), Some(row)) => {
                let got = e.query(Query::<Views!(Option<&A>, Option<&Z>, Option<&O>, Option<&B>)>::new());
                match got {
                    Some(result!(a, z, o, b)) => {
                        let r = [a.map(|c| c.read().0), z.map(|c| c.read().0), o.map(|c| c.read().0), b.map(|c| c.read().0)];
                        if &r != row {
                            chk.fail(Prop::C02, &format!("entry-resolves-to-other-entity op={}", k), format!("entry({:?}) reads {:?}, model {:?}", id, r, row));
                        }
                    }
                    None => chk.fail(Prop::C02, &format!("entry-query-none op={}", k), format!("all-optional entry query on {:?} returned None", id)),
                }
            }
            (None, None) => {}
            (Some(_), None) => chk.fail(Prop::C02, &format!("stale-identifier-resolves op={}", k), format!("entry({:?}) is Some for a dead identifier", id)),
            (None, Some(_)) => chk.fail(Prop::C02, &format!("live-identifier-unresolved op={}", k), format!("entry({:?}) is None for a live identifier", id)),
        }
    }
    // C02: query-time Entries
    {
        let mut res = w.query(Query::<Views!(), filter::None, Views!(), Views!(&A, &B, &O)>::new());
        for &id in &m.issued {
            let live = m.ents.get(&id);
            match (res.entries.entry(mkid(id)), live) {
                (Some(mut e), Some(row)) => {
                    let got = e.query(Query::<Views!(&A)>::new()).map(|result!(a)| a.read().0);
                    if got != row[0] {
                        chk.fail(Prop::C02, &format!("entries-entry-wrong op={}", k), format!("Entries::entry({:?}) A reads {:?}, model {:?}", id, got, row[0]));
                    }
                    let got = e.query(Query::<Views!(&O, &B)>::new()).map(|result!(o, b)| (o.read().0, b.read().0));
                    let want = match (row[2], row[3]) {
                        (Some(o), Some(b)) => Some((o, b)),
                        _ => None,
                    };
                    if got != want {
                        chk.fail(Prop::C02, &format!("entries-entry-wrong op={}", k), format!("Entries::entry({:?}) (O,B) reads {:?}, model {:?}", id, got, want));
                    }
                }
                (None, None) => {}
                (Some(_), None) => chk.fail(Prop::C02, &format!("stale-identifier-resolves-entries op={}", k), format!("{:?}", id)),
                (None, Some(_)) => chk.fail(Prop::C02, &format!("live-identifier-unresolved-entries op={}", k), format!("{:?}", id)),
            }
        }
    }
}

fn first_diff(sv: &[(Id, [Option<u32>; NC])], mv: &[(Id, [Option<u32>; NC])]) -> String {
    let sm: BTreeMap<_, _> = sv.iter().cloned().collect();
    let mm: BTreeMap<_, _> = mv.iter().cloned().collect();
    for (id, row) in &mm {
        match sm.get(id) {
            None => return format!("model has {:?} = {:?}, world lacks it (world has {} rows, model {})", id, row, sv.len(), mv.len()),
            Some(r) if r != row => return format!("{:?}: world {:?}, model {:?}", id, r, row),
            _ => {}
        }
    }
    for (id, row) in &sm {
        if !mm.contains_key(id) {
            return format!("world has {:?} = {:?}, model lacks it", id, row);
        }
    }
    format!("row multiplicity differs: world {} rows, model {}", sv.len(), mv.len())
}

// ---------------------------------------------------------------------------------------------
// C13 structural audit

pub fn audit(d: &brood::verif::Dump, m: &Model, chk: &mut Checker, k: &str, which: &str) {
    audit_n(d, m, chk, k, which, NC)
}

/// The structural audit for a registry of `ncomp` components (the model rows only carry liveness here).
pub fn audit_n(d: &brood::verif::Dump, m: &Model, chk: &mut Checker, k: &str, which: &str, ncomp: usize) {
    let mut bad = |key: &str, detail: String| {
        // a pointer kept to memory this world does not own is also a memory-safety defect (C05): the next lookup
        // compares / dereferences it
        if matches!(key, "typeid-lookup-dangling" | "bytes-lookup-dangling" | "slot-points-outside-world" | "bytes-lookup-key-foreign") {
            chk.fail(Prop::C05, &format!("dangling-pointer-kept ({}) op={}", key, k), format!("[{}] {}", which, detail));
        }
        chk.fail(Prop::C13, &format!("{} op={}", key, k), format!("[{}] {}", which, detail))
    };
    let nbytes = (ncomp + 7) / 8;
    let mut by_addr: BTreeMap<usize, usize> = BTreeMap::new();
    let mut seen_bytes: BTreeSet<Vec<u8>> = BTreeSet::new();
    let mut total = 0usize;
    let mut row_ids: BTreeSet<Id> = BTreeSet::new();
    if d.table_len != d.archetypes.len() {
        bad("table-len", format!("table reports {} entries, iteration yields {}", d.table_len, d.archetypes.len()));
    }
    for (ai, a) in d.archetypes.iter().enumerate() {
        if a.id_bytes.len() != nbytes {
            bad("identifier-size", format!("{:?}", a.id_bytes));
        }
        if !seen_bytes.insert(a.id_bytes.clone()) {
            bad("two-tables-one-component-set", format!("component set {:?} has two tables", a.id_bytes));
        }
        if ncomp % 8 != 0 && a.id_bytes.last().map_or(false, |b| b >> (ncomp % 8) != 0) {
            bad("identifier-padding-bits", format!("{:?}", a.id_bytes));
        }
        if by_addr.insert(a.id_addr, ai).is_some() {
            bad("identifier-address-shared", format!("{:#x}", a.id_addr));
        }
        let bits: u32 = a.id_bytes.iter().map(|b| b.count_ones()).sum();
        if a.columns.len() != bits as usize {
            bad("column-count", format!("{:?} has {} columns", a.id_bytes, a.columns.len()));
        }
        if a.entity_ids.len() != a.length {
            bad("entity-column-length", format!("{} ids, length {}", a.entity_ids.len(), a.length));
        }
        if a.entity_col.1 < a.length {
            bad("entity-column-capacity", format!("cap {} < length {}", a.entity_col.1, a.length));
        }
        for c in &a.columns {
            if c.1 < a.length {
                bad("column-capacity", format!("cap {} < length {}", c.1, a.length));
            }
        }
        total += a.length;
        let mask = a.id_bytes.first().copied().unwrap_or(0);
        for (row, id) in a.entity_ids.iter().enumerate() {
            if !row_ids.insert(*id) {
                bad("identifier-on-two-rows", format!("{:?}", id));
            }
            match d.slots.get(id.0) {
                None => bad("row-identifier-out-of-range", format!("{:?}", id)),
                Some(s) => {
                    if s.generation != id.1 {
                        bad("row-identifier-generation", format!("row holds {:?}, slot generation {}", id, s.generation));
                    }
                    if s.location != Some((a.id_addr, row)) {
                        bad("slot-location-mismatch", format!("{:?} stored at ({:?}, row {}), slot says {:?}", id, a.id_bytes, row, s.location));
                    }
                }
            }
            match m.ents.get(id) {
                Some(r) if Model::mask_of(r) != mask => bad("entity-in-wrong-table", format!("{:?} has set {:#06b}, stored in {:#06b}", id, Model::mask_of(r), mask)),
                _ => {}
            }
        }
    }
    if total != d.len {
        bad("len-vs-rows", format!("len {} but {} rows stored", d.len, total));
    }
    let live: BTreeSet<Id> = m.ents.keys().copied().collect();
    if row_ids != live {
        bad("stored-vs-live", format!("stored {:?} live {:?}", row_ids.symmetric_difference(&live).collect::<Vec<_>>(), live.len()));
    }
    let mut inactive: BTreeSet<usize> = BTreeSet::new();
    for (i, s) in d.slots.iter().enumerate() {
        match s.location {
            None => {
                inactive.insert(i);
            }
            Some((addr, row)) => match by_addr.get(&addr) {
                None => bad("slot-points-outside-world", format!("slot {} -> {:#x}", i, addr)),
                Some(&ai) => {
                    let a = &d.archetypes[ai];
                    if row >= a.length || a.entity_ids.get(row) != Some(&(i, s.generation)) {
                        bad("active-slot-without-row", format!("slot {} gen {} -> row {} of {:?} (len {})", i, s.generation, row, a.id_bytes, a.length));
                    }
                }
            },
        }
    }
    let mut free_set: BTreeSet<usize> = BTreeSet::new();
    for &f in &d.free {
        if !free_set.insert(f) {
            bad("free-list-duplicate", format!("slot {} twice in free list {:?}", f, d.free));
        }
        if f >= d.slots.len() {
            bad("free-list-out-of-range", format!("{}", f));
        }
    }
    if free_set != inactive {
        let lost: Vec<_> = inactive.difference(&free_set).collect();
        let bogus: Vec<_> = free_set.difference(&inactive).collect();
        if !lost.is_empty() {
            bad("released-slot-lost", format!("inactive slots {:?} are not in the free list {:?}", lost, d.free));
        }
        if !bogus.is_empty() {
            bad("active-slot-in-free-list", format!("{:?}", bogus));
        }
    }
    for t in &d.type_id_lookup {
        if !by_addr.contains_key(t) {
            bad("typeid-lookup-dangling", format!("{:#x}", t));
        }
    }
    let mut reachable: BTreeSet<usize> = BTreeSet::new();
    for (kb, kaddr, vaddr) in &d.foreign_lookup {
        match by_addr.get(vaddr) {
            None => bad("bytes-lookup-dangling", format!("{:?} -> {:#x}", kb, vaddr)),
            Some(&ai) => {
                if &d.archetypes[ai].id_bytes != kb {
                    bad("bytes-lookup-wrong-target", format!("{:?} -> {:?}", kb, d.archetypes[ai].id_bytes));
                }
                if kaddr != vaddr && nbytes > 0 {
                    bad("bytes-lookup-key-foreign", format!("key at {:#x}, table at {:#x}", kaddr, vaddr));
                }
                reachable.insert(*vaddr);
            }
        }
    }
    for a in &d.archetypes {
        if !reachable.contains(&a.id_addr) {
            bad("table-unreachable-by-bytes", format!("{:?}", a.id_bytes));
        }
    }
}

// ---------------------------------------------------------------------------------------------
// Canonical state

/// `strict` includes capacities, `TypeId` lookup entries and lookup multiplicity; the loose form keeps
/// rows, slots, generations and the free list (everything identifier allocation depends on).
pub fn canon_world(d: &brood::verif::Dump, out: &mut Vec<u8>, strict: bool) {
    let mut arch: Vec<&brood::verif::ArchetypeDump> = d.archetypes.iter().collect();
    arch.sort_by(|a, b| a.id_bytes.cmp(&b.id_bytes));
    let addr_rank: BTreeMap<usize, usize> = arch.iter().enumerate().map(|(i, a)| (a.id_addr, i)).collect();
    let typed: BTreeSet<usize> = d.type_id_lookup.iter().copied().collect();
    out.push(arch.len() as u8);
    for a in &arch {
        out.extend_from_slice(&a.id_bytes);
        out.push(a.length as u8);
        if strict {
            out.push(a.entity_col.1.min(255) as u8);
            for c in &a.columns {
                out.push(c.1.min(255) as u8);
            }
        }
        for id in &a.entity_ids {
            out.push(id.0 as u8);
            out.extend_from_slice(&(id.1 as u16).to_le_bytes());
        }
        if strict {
            out.push(typed.contains(&a.id_addr) as u8);
        }
    }
    out.push(d.slots.len() as u8);
    for s in &d.slots {
        out.extend_from_slice(&(s.generation as u16).to_le_bytes());
        match s.location {
            None => out.push(0xff),
            Some((addr, row)) => {
                out.push(addr_rank.get(&addr).map_or(0xfe, |r| *r as u8));
                out.push(row as u8);
            }
        }
    }
    out.push(d.free.len() as u8);
    for f in &d.free {
        out.push(*f as u8);
    }
    if strict {
        out.push(d.foreign_lookup.len() as u8);
    }
    out.push(d.len as u8);
}

impl Exec {
    pub fn canon(&self) -> Vec<u8> {
        let mut out = Vec::with_capacity(128);
        canon_world(&self.w.verif_dump(), &mut out, true);
        match &self.aux {
            None => out.push(0),
            Some(a) => {
                out.push(1);
                canon_world(&a.verif_dump(), &mut out, true);
            }
        }
        match &self.twin {
            None => out.push(0),
            Some(t) => {
                out.push(1 + self.twin_kind);
                out.extend_from_slice(&t.canon());
            }
        }
        out
    }
}

// ---------------------------------------------------------------------------------------------
// serde round trips

pub fn rt_json(w: &W) -> Result<W, String> {
    let s = serde_json::to_string(w).map_err(|e| format!("serialize failed: {e}"))?;
    serde_json::from_str::<W>(&s).map_err(|e| format!("deserialize of own output failed: {e}; text={s}"))
}

pub fn to_tokens(w: &W, human: bool) -> Result<serde_assert::Tokens, String> {
    use serde::Serialize;
    let ser = serde_assert::Serializer::builder().is_human_readable(human).build();
    w.serialize(&ser).map_err(|e| format!("serialize failed: {e:?}"))
}

pub fn from_tokens(tokens: serde_assert::Tokens, human: bool) -> Result<W, String> {
    use serde::Deserialize;
    let mut de = serde_assert::Deserializer::builder().tokens(tokens).is_human_readable(human).build();
    W::deserialize(&mut de).map_err(|e| format!("{e:?}"))
}

pub fn rt_tok(w: &W, human: bool) -> Result<W, String> {
    let tokens = to_tokens(w, human)?;
    let shown = format!("{:?}", tokens);
    let back = from_tokens(tokens, human).map_err(|e| format!("deserialize of own output failed: {e}; tokens={shown}"))?;
    // the same round trip with every struct written as a sequence (the `visit_seq` branch of the struct visitors,
    // which formats such as bincode or postcard take): it must succeed and give an equal world
    let seq_tokens = {
        use serde::Serialize;
        let ser = serde_assert::Serializer::builder().is_human_readable(human).serialize_struct_as(serde_assert::ser::SerializeStructAs::Seq).build();
        w.serialize(&ser).map_err(|e| format!("serialize (structs as sequences) failed: {e:?}"))?
    };
    let shown = format!("{:?}", seq_tokens);
    let back_seq = from_tokens(seq_tokens, human).map_err(|e| format!("deserialize of own output (structs as sequences) failed: {e}; tokens={shown}"))?;
    if !(back_seq == back) || !(back == back_seq) {
        return Err(format!("structs-as-sequences round trip differs from the struct round trip; tokens={shown}"));
    }
    Ok(back)
}

// ---------------------------------------------------------------------------------------------
// Alphabets and state enumeration (shared by the engines)

pub fn alphabet(name: &str) -> Vec<Op> {
    use Op::*;
    use Tgt::*;
    match name {
        "alloc" => vec![
            Insert { mask: 1, rev: false },
            Extend { mask: 1, n: 0, style: 0 },
            Extend { mask: 1, n: 1, style: 0 },
            Extend { mask: 1, n: 2, style: 0 },
            Extend { mask: 1, n: 3, style: 0 },
            Remove(Lo),
            Remove(Mid),
            Remove(Hi),
            Clear,
            RtJson,
        ],
        "shape" => {
            let mut v = vec![Insert { mask: 0, rev: false }, Insert { mask: 5, rev: true }, Insert { mask: 15, rev: true }];
            for t in [Lo, Mid] {
                for c in 0..3u8 {
                    v.push(Add(t, c));
                    v.push(RemoveComp(t, c));
                }
            }
            v.extend([Remove(Lo), MutQ(3), Shrink, EntryChain(Lo, 0), EntryChain(Lo, 1), EntryChain(Mid, 3)]);
            v
        }
        "copy" => vec![
            Insert { mask: 1, rev: false },
            Insert { mask: 5, rev: true },
            Extend { mask: 5, n: 2, style: 0 },
            Remove(Lo),
            RemoveComp(Lo, 0),
            Shrink,
            CloneSelf,
            Snapshot,
            CloneFromAux,
            CloneFromEmpty,
            SwapAux,
            RtJson,
            RtTok { human: false },
        ],
        "zbig" => vec![
            Insert { mask: 6, rev: false },
            Extend { mask: 6, n: 0, style: 0 },
            Extend { mask: 6, n: 2, style: 0 },
            Extend { mask: 6, n: 3, style: 2 },
            Extend { mask: 4, n: 2, style: 1 },
            Remove(Lo),
            Remove(Hi),
            Reserve { mask: 6, n: 2 },
            Shrink,
            Clear,
            Add(Lo, 3),
            RemoveComp(Lo, 2),
        ],
        "all" => {
            let mut v = vec![];
            for (mask, rev) in [(0, false), (1, false), (2, false), (5, true), (10, true), (15, true), (15, false)] {
                v.push(Insert { mask, rev });
            }
            for (mask, n, style) in [(1, 0, 0), (1, 2, 0), (5, 3, 0), (5, 2, 1), (15, 2, 2), (2, 2, 0), (0, 2, 2), (12, 1, 1)] {
                v.push(Extend { mask, n, style });
            }
            v.extend([Remove(Lo), Remove(Mid), Remove(Hi), RemoveStale, Clear]);
            for c in 0..4u8 {
                v.push(Add(Lo, c));
                v.push(RemoveComp(Lo, c));
            }
            v.extend([Add(Mid, 0), RemoveComp(Mid, 3), MutQ(0), MutQ(1), MutQ(2), MutQ(3), MutEntry(Lo), MutEntry(Mid)]);
            v.extend([EntryChain(Lo, 0), EntryChain(Lo, 1), EntryChain(Lo, 2), EntryChain(Mid, 3)]);
            v.extend([Reserve { mask: 5, n: 2 }, Reserve { mask: 15, n: 2 }, Shrink]);
            v.extend([CloneSelf, Snapshot, CloneFromAux, CloneFromEmpty, SwapAux, RtJson, RtTok { human: false }, RtTok { human: true }]);
            v.extend([ResSet(0), ResSet(1), ResSet(2)]);
            v
        }
        "twin" => vec![
            Insert { mask: 1, rev: false },
            Insert { mask: 14, rev: true },
            Extend { mask: 1, n: 2, style: 0 },
            Extend { mask: 5, n: 1, style: 0 },
            Remove(Lo),
            Remove(Hi),
            Clear,
            Add(Lo, 1),
            RemoveComp(Lo, 0),
            Shrink,
            Twin(0),
            Twin(1),
            Twin(2),
            RtJson,
            CloneSelf,
            MutQ(0),
            ResSet(2),
        ],
        "ctwin" => vec![
            Insert { mask: 1, rev: false },
            Insert { mask: 14, rev: true },
            Extend { mask: 5, n: 2, style: 0 },
            Remove(Lo),
            Clear,
            Add(Lo, 2),
            RemoveComp(Lo, 0),
            Shrink,
            Twin(3),
            Snapshot,
            CloneFromAux,
            SwapAux,
            MutQ(0),
            ResSet(0),
        ],
        "follow" => vec![
            Insert { mask: 5, rev: false },
            Insert { mask: 15, rev: true },
            Extend { mask: 1, n: 2, style: 0 },
            Remove(Lo),
            Remove(Hi),
            Clear,
            Add(Lo, 1),
            RemoveComp(Lo, 0),
            MutQ(0),
            Shrink,
            ResSet(2),
            RtJson,
        ],
        "res" => vec![
            Insert { mask: 9, rev: true },
            Remove(Lo),
            Clear,
            MutQ(0),
            CloneSelf,
            Snapshot,
            CloneFromAux,
            CloneFromEmpty,
            SwapAux,
            RtJson,
            RtTok { human: false },
            ResSet(0),
            ResSet(1),
            ResSet(2),
            Shrink,
        ],
        "stale" => vec![
            Insert { mask: 1, rev: false },
            Insert { mask: 8, rev: false },
            Extend { mask: 1, n: 2, style: 0 },
            Remove(Lo),
            Remove(Mid),
            RemoveStale,
            Clear,
            Add(Lo, 3),
            RemoveComp(Lo, 0),
            Shrink,
            CloneSelf,
            RtTok { human: false },
        ],
        _ => panic!("unknown alphabet {name}"),
    }
}

/// Representative histories of every state reachable within `depth` operations (canonical-state
/// de-duplication, breadth first, lexicographically smallest history per state).  Must be called on a
/// thread with an arena; runs one arena epoch per transition.
thread_local! {
    /// first panic met while enumerating states (a misbehaviour of the library under plain operations)
    pub static ENUM_FAILURE: std::cell::RefCell<Option<String>> = const { std::cell::RefCell::new(None) };
}

pub fn enumerate_states(ops: &[Op], depth: usize) -> Vec<Vec<u8>> {
    let mut seen = std::collections::HashSet::new();
    let mut out: Vec<Vec<u8>> = vec![vec![]];
    let mut frontier: Vec<Vec<u8>> = vec![vec![]];
    for _ in 0..depth {
        let mut next = Vec::new();
        for h in &frontier {
            for oi in 0..ops.len() as u8 {
                let mut h2 = h.clone();
                h2.push(oi);
                arena::begin(0);
                comp::ledger_begin();
                let r = std::panic::catch_unwind(std::panic::AssertUnwindSafe(|| {
                    let mut ex = std::mem::ManuallyDrop::new(Exec::new());
                    let mut chk = Checker::default();
                    let mut ok = true;
                    for &o in &h2 {
                        if ex.apply(&ops[o as usize], &mut chk) == Step::Disabled {
                            ok = false;
                            break;
                        }
                    }
                    let k = if ok { Some(crate::util::hash128(&ex.canon())) } else { None };
                    drop(std::mem::ManuallyDrop::into_inner(ex));
                    k
                }));
                drop(comp::ledger_end());
                let _ = arena::end();
                let key = match r {
                    Ok(k) => k,
                    Err(_) => {
                        // a plain operation sequence made the library panic: remembered, reported by the caller
                        let msg = crate::util::take_last_panic();
                        ENUM_FAILURE.with(|f| {
                            if f.borrow().is_none() {
                                *f.borrow_mut() = Some(format!("history {:?} panicked: {}", h2.iter().map(|&o| format!("{:?}", ops[o as usize])).collect::<Vec<_>>(), msg));
                            }
                        });
                        None
                    }
                };
                if let Some(k) = key {
                    if seen.insert(k) {
                        next.push(h2.clone());
                        out.push(h2);
                    }
                }
            }
        }
        frontier = next;
    }
    out
}

pub fn build_exec(ops: &[Op], hist: &[u8]) -> Exec {
    let mut ex = Exec::new();
    let mut chk = Checker::default();
    for &oi in hist {
        if ex.apply(&ops[oi as usize], &mut chk) == Step::Disabled {
            panic!("machinery: disabled op while rebuilding a state");
        }
    }
    ex
}
