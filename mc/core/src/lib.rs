pub mod arena;
pub mod comp;
pub mod util;
pub mod s4;
pub mod grid;
pub mod wide;
