pub mod arena;
pub mod comp;
pub mod util;
pub mod s4;
