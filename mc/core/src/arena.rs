//! Deterministic checking allocator.
//!
//! While an *execution* is active on a thread, every allocation made by that thread comes from a
//! per-thread bump arena mapped at a fixed virtual address, so addresses are a pure function of
//! the allocation sequence (brood hashes archetypes by identifier *address*).  Nothing is reused
//! inside an execution: freed blocks are poisoned with 0xDD, fresh blocks are filled with 0xCD,
//! every block carries canary red zones, and `dealloc` checks the layout against the one recorded
//! at allocation.  Invalid frees are recorded and swallowed so the process survives and reports.

use std::alloc::{GlobalAlloc, Layout, System};
use std::cell::Cell;
use std::sync::atomic::{AtomicU32, AtomicU64, Ordering};

pub const BASE: usize = 0x6000_0000_0000;
pub const STRIDE: usize = 1 << 32;
pub const MAX_ARENAS: usize = 64;
pub const DATA_SIZE: usize = 1 << 30; // 1 GiB of address space per arena (lazily committed)
const META_OFF: usize = 1 << 31; // metadata lives in the upper half of the stride
const META_SIZE: usize = 1 << 28;
const RED: usize = 32;
const HDR: usize = 32;
const MAGIC: u32 = 0xB10C_C0DE;
const CANARY: u8 = 0xA5;
pub const POISON_FREED: u8 = 0xDD;
pub const POISON_FRESH: u8 = 0xCD;
const MAX_ERRORS: usize = 32;

#[repr(C)]
struct Header {
    magic: u32,
    /// bytes after the rear red zone that a growing `realloc` may still take over (only in grow-in-place mode)
    slack: u32,
    size: u64,
    align: u32,
    state: AtomicU32, // 1 live, 2 freed
    epoch_seq: u64,   // epoch << 32 | seq
}

#[derive(Clone, Copy, Debug, PartialEq, Eq)]
#[repr(u32)]
pub enum ErrKind {
    DoubleFree = 1,
    UnknownFree = 2,
    LayoutMismatch = 3,
    RedZone = 4,
    StaleEpoch = 5,
    OutOfArena = 6,
}

#[derive(Clone, Copy, Debug)]
pub struct ArenaError {
    pub kind: ErrKind,
    pub addr: usize,
    pub a: u64,
    pub b: u64,
}

#[repr(C)]
struct State {
    index: usize,
    bump: usize,
    epoch: u64,
    nblocks: usize,
    active: bool,
    /// odd address salts: blocks are allocated with slack behind them and `realloc` grows them in place while the
    /// slack lasts (what size-class allocators do); even salts: every `realloc` moves the block
    grow_in_place: bool,
    live_blocks: AtomicU64,
    live_bytes: AtomicU64,
    total_allocs: u64,
    nerrors: AtomicU32,
    errors: [ArenaError; MAX_ERRORS],
}

thread_local! {
    static ST: Cell<*mut State> = const { Cell::new(std::ptr::null_mut()) };
    static SUSPEND: Cell<u32> = const { Cell::new(0) };
}

pub struct Arena;

/// Debug aid: print a backtrace when the block with this sequence number is allocated.
pub static TRACE_SEQ: std::sync::atomic::AtomicI64 = std::sync::atomic::AtomicI64::new(-1);

fn arena_base(index: usize) -> usize {
    BASE + index * STRIDE
}

fn state_of(index: usize) -> *mut State {
    (arena_base(index) + META_OFF) as *mut State
}

fn blocks_of(index: usize) -> *mut usize {
    (arena_base(index) + META_OFF + 65536) as *mut usize
}

const MAX_BLOCKS: usize = (META_SIZE - 65536) / 8;

fn in_any_arena(p: usize) -> Option<usize> {
    if p >= BASE && p < BASE + MAX_ARENAS * STRIDE {
        let idx = (p - BASE) / STRIDE;
        let off = (p - BASE) % STRIDE;
        if off < DATA_SIZE {
            return Some(idx);
        }
    }
    None
}

/// Maps arena `index` for the calling thread.  Must be called once per thread that runs
/// executions; distinct threads must use distinct indices.
pub fn init_thread(index: usize) {
    assert!(index < MAX_ARENAS);
    static MAPPED: [std::sync::atomic::AtomicBool; MAX_ARENAS] = [const { std::sync::atomic::AtomicBool::new(false) }; MAX_ARENAS];
    if MAPPED[index].swap(true, Ordering::SeqCst) {
        // already mapped by an earlier (finished) thread: adopt it
        let st = state_of(index);
        unsafe {
            assert!(!(*st).active, "arena {index} is in use");
        }
        ST.with(|c| c.set(st));
        return;
    }
    unsafe {
        let base = arena_base(index);
        let flags = libc::MAP_PRIVATE | libc::MAP_ANONYMOUS | libc::MAP_NORESERVE | libc::MAP_FIXED_NOREPLACE;
        let p = libc::mmap(base as *mut _, DATA_SIZE, libc::PROT_READ | libc::PROT_WRITE, flags, -1, 0);
        assert!(p as usize == base, "arena data mmap failed at {base:#x}");
        let m = libc::mmap((base + META_OFF) as *mut _, META_SIZE, libc::PROT_READ | libc::PROT_WRITE, flags, -1, 0);
        assert!(m as usize == base + META_OFF, "arena meta mmap failed");
        let st = state_of(index);
        (*st).index = index;
        (*st).bump = base;
        (*st).epoch = 0;
        (*st).nblocks = 0;
        (*st).active = false;
        ST.with(|c| c.set(st));
    }
}

pub fn thread_index() -> Option<usize> {
    let st = ST.with(|c| c.get());
    if st.is_null() { None } else { Some(unsafe { (*st).index }) }
}

/// Starts an execution: the arena is reset, the bump pointer starts at `salt` (rounded to 64).
pub fn begin(salt: usize) {
    let st = ST.with(|c| c.get());
    assert!(!st.is_null(), "arena::init_thread not called");
    unsafe {
        assert!(!(*st).active, "nested arena execution");
        (*st).epoch += 1;
        (*st).bump = arena_base((*st).index) + ((salt * 64) % (1 << 20));
        (*st).grow_in_place = salt % 2 == 1;
        (*st).nblocks = 0;
        (*st).live_blocks.store(0, Ordering::Relaxed);
        (*st).live_bytes.store(0, Ordering::Relaxed);
        (*st).total_allocs = 0;
        (*st).nerrors.store(0, Ordering::Relaxed);
        (*st).active = true;
    }
}

#[derive(Clone, Debug, Default)]
pub struct Report {
    pub errors: Vec<ArenaError>,
    pub leaked_blocks: u64,
    pub leaked_bytes: u64,
    pub total_allocs: u64,
    pub leaks: Vec<(usize, u64, u32)>,
}

impl Report {
    pub fn clean(&self) -> bool {
        self.errors.is_empty()
    }
    pub fn describe(&self) -> String {
        let mut s = String::new();
        for e in &self.errors {
            s.push_str(&format!("{:?}@{:#x}(a={},b={}) ", e.kind, e.addr, e.a, e.b));
        }
        if self.leaked_blocks > 0 {
            s.push_str(&format!("leaked {} blocks / {} bytes: {:?}", self.leaked_blocks, self.leaked_bytes, &self.leaks[..self.leaks.len().min(6)]));
        }
        s
    }
}

/// Ends the execution: verifies every red zone, collects errors and the set of blocks still live.
/// The report is allocated from the system allocator.
pub fn end() -> Report {
    let st = ST.with(|c| c.get());
    assert!(!st.is_null());
    unsafe {
        assert!((*st).active, "arena::end without begin");
        (*st).active = false;
        let mut rep = Report::default();
        let blocks = blocks_of((*st).index);
        for i in 0..(*st).nblocks {
            let user = *blocks.add(i);
            let hdr = (user - RED - HDR) as *const Header;
            if (*hdr).magic != MAGIC {
                record(st, ErrKind::RedZone, user, 0, 0);
                continue;
            }
            let size = (*hdr).size as usize;
            if !redzones_ok(user, size) {
                record(st, ErrKind::RedZone, user, size as u64, 1);
            }
            if (*hdr).state.load(Ordering::Relaxed) == 1 {
                rep.leaks.push((i, (*hdr).size, (*hdr).align));
            }
        }
        rep.leaked_blocks = (*st).live_blocks.load(Ordering::Relaxed);
        rep.leaked_bytes = (*st).live_bytes.load(Ordering::Relaxed);
        rep.total_allocs = (*st).total_allocs;
        let n = ((*st).nerrors.load(Ordering::Relaxed) as usize).min(MAX_ERRORS);
        for i in 0..n {
            rep.errors.push((*st).errors[i]);
        }
        rep
    }
}

pub fn is_active() -> bool {
    let st = ST.with(|c| c.get());
    !st.is_null() && unsafe { (*st).active }
}

/// Number of arena errors recorded so far in the running execution.
pub fn error_count() -> u32 {
    let st = ST.with(|c| c.get());
    if st.is_null() { 0 } else { unsafe { (*st).nerrors.load(Ordering::Relaxed) } }
}

pub fn live_blocks() -> u64 {
    let st = ST.with(|c| c.get());
    if st.is_null() { 0 } else { unsafe { (*st).live_blocks.load(Ordering::Relaxed) } }
}

/// Runs `f` with allocations routed to the system allocator (for data that must outlive the
/// execution: results, reports).
pub fn with_system<T>(f: impl FnOnce() -> T) -> T {
    SUSPEND.with(|c| c.set(c.get() + 1));
    struct G;
    impl Drop for G {
        fn drop(&mut self) {
            SUSPEND.with(|c| c.set(c.get() - 1));
        }
    }
    let _g = G;
    f()
}

/// Is `p` inside a live arena block of the current epoch (any thread's arena)?  Used by tokens to
/// classify a reference: `Some(true)` live block, `Some(false)` freed/unknown arena memory,
/// `None` not arena memory.
pub fn classify(p: usize) -> Option<bool> {
    let idx = in_any_arena(p)?;
    unsafe {
        let st = state_of(idx);
        let blocks = blocks_of(idx);
        // binary search: blocks are in increasing address order
        let n = (*st).nblocks;
        let (mut lo, mut hi) = (0usize, n);
        while lo < hi {
            let mid = (lo + hi) / 2;
            if *blocks.add(mid) <= p { lo = mid + 1 } else { hi = mid }
        }
        if lo == 0 {
            return Some(false);
        }
        let user = *blocks.add(lo - 1);
        let hdr = (user - RED - HDR) as *const Header;
        let size = (*hdr).size as usize;
        if p < user + size.max(1) && (*hdr).state.load(Ordering::Relaxed) == 1 {
            Some(true)
        } else {
            Some(false)
        }
    }
}

unsafe fn record(st: *mut State, kind: ErrKind, addr: usize, a: u64, b: u64) {
    let i = (*st).nerrors.fetch_add(1, Ordering::Relaxed) as usize;
    if i < MAX_ERRORS {
        (*st).errors[i] = ArenaError { kind, addr, a, b };
    }
}

unsafe fn redzones_ok(user: usize, size: usize) -> bool {
    let front = std::slice::from_raw_parts((user - RED) as *const u8, RED);
    let rear = std::slice::from_raw_parts((user + size) as *const u8, RED);
    front.iter().all(|&b| b == CANARY) && rear.iter().all(|&b| b == CANARY)
}

unsafe impl GlobalAlloc for Arena {
    unsafe fn alloc(&self, layout: Layout) -> *mut u8 {
        let st = ST.with(|c| c.get());
        if st.is_null() || !(*st).active || SUSPEND.with(|c| c.get()) > 0 {
            return System.alloc(layout);
        }
        let align = layout.align().max(8);
        let size = layout.size();
        let user = ((*st).bump + HDR + RED + align - 1) & !(align - 1);
        let slack = if (*st).grow_in_place { ((size.max(16) * 2).min(4096) + 7) & !7 } else { 0 };
        let end = user + size + RED + slack;
        let base = arena_base((*st).index);
        if end > base + DATA_SIZE || (*st).nblocks >= MAX_BLOCKS {
            record(st, ErrKind::OutOfArena, user, size as u64, 0);
            return std::ptr::null_mut();
        }
        (*st).bump = (end + 7) & !7;
        let hdr = (user - RED - HDR) as *mut Header;
        std::ptr::write(
            hdr,
            Header {
                magic: MAGIC,
                slack: slack as u32,
                size: size as u64,
                align: layout.align() as u32,
                state: AtomicU32::new(1),
                epoch_seq: ((*st).epoch << 32) | ((*st).nblocks as u64),
            },
        );
        std::ptr::write_bytes((user - RED) as *mut u8, CANARY, RED);
        std::ptr::write_bytes(user as *mut u8, POISON_FRESH, size);
        std::ptr::write_bytes((user + size) as *mut u8, CANARY, RED);
        *blocks_of((*st).index).add((*st).nblocks) = user;
        if TRACE_SEQ.load(Ordering::Relaxed) == (*st).nblocks as i64 {
            let bt = with_system(|| std::backtrace::Backtrace::force_capture().to_string());
            with_system(|| eprintln!("ARENA-TRACE block #{} size {} align {} at {:#x}\n{}", (*st).nblocks, size, layout.align(), user, bt));
        }
        (*st).nblocks += 1;
        (*st).total_allocs += 1;
        (*st).live_blocks.fetch_add(1, Ordering::Relaxed);
        (*st).live_bytes.fetch_add(size as u64, Ordering::Relaxed);
        user as *mut u8
    }

    unsafe fn alloc_zeroed(&self, layout: Layout) -> *mut u8 {
        let p = self.alloc(layout);
        if !p.is_null() {
            std::ptr::write_bytes(p, 0, layout.size());
        }
        p
    }

    unsafe fn dealloc(&self, ptr: *mut u8, layout: Layout) {
        let p = ptr as usize;
        let Some(idx) = in_any_arena(p) else {
            return System.dealloc(ptr, layout);
        };
        let st = state_of(idx);
        // Find the block through the header in front of the user pointer.
        let hdr = (p.wrapping_sub(RED + HDR)) as *mut Header;
        let base = arena_base(idx);
        if (hdr as usize) < base || (*hdr).magic != MAGIC {
            record(st, ErrKind::UnknownFree, p, layout.size() as u64, layout.align() as u64);
            return;
        }
        if ((*hdr).epoch_seq >> 32) != (*st).epoch {
            record(st, ErrKind::StaleEpoch, p, (*hdr).epoch_seq >> 32, (*st).epoch);
            return;
        }
        let seq = ((*hdr).epoch_seq & 0xffff_ffff) as usize;
        if seq >= (*st).nblocks || *blocks_of(idx).add(seq) != p {
            record(st, ErrKind::UnknownFree, p, layout.size() as u64, layout.align() as u64);
            return;
        }
        if (*hdr).state.swap(2, Ordering::Relaxed) != 1 {
            record(st, ErrKind::DoubleFree, p, layout.size() as u64, layout.align() as u64);
            return;
        }
        let size = (*hdr).size as usize;
        if size != layout.size() || (*hdr).align as usize != layout.align() {
            record(
                st,
                ErrKind::LayoutMismatch,
                p,
                ((*hdr).size << 16) | (*hdr).align as u64,
                ((layout.size() as u64) << 16) | layout.align() as u64,
            );
        }
        if !redzones_ok(p, size) {
            record(st, ErrKind::RedZone, p, size as u64, 0);
        }
        std::ptr::write_bytes(ptr, POISON_FREED, size);
        (*st).live_blocks.fetch_sub(1, Ordering::Relaxed);
        (*st).live_bytes.fetch_sub(size as u64, Ordering::Relaxed);
    }

    unsafe fn realloc(&self, ptr: *mut u8, layout: Layout, new_size: usize) -> *mut u8 {
        let p = ptr as usize;
        if in_any_arena(p).is_none() {
            let st = ST.with(|c| c.get());
            let arena_on = !st.is_null() && (*st).active && SUSPEND.with(|c| c.get()) == 0;
            if !arena_on {
                return System.realloc(ptr, layout, new_size);
            }
        }
        // grow-in-place mode: take over the slack behind the block (the recorded capacity of a buffer must then be
        // updated by the caller although the pointer did not change)
        if let Some(idx) = in_any_arena(p) {
            let st = state_of(idx);
            let hdr = (p.wrapping_sub(RED + HDR)) as *mut Header;
            if (*st).grow_in_place && (hdr as usize) >= arena_base(idx) && (*hdr).magic == MAGIC && ((*hdr).epoch_seq >> 32) == (*st).epoch && (*hdr).state.load(Ordering::Relaxed) == 1 {
                let size = (*hdr).size as usize;
                if size != layout.size() || (*hdr).align as usize != layout.align() {
                    record(st, ErrKind::LayoutMismatch, p, ((*hdr).size << 16) | (*hdr).align as u64, ((layout.size() as u64) << 16) | layout.align() as u64);
                }
                if new_size > size && new_size - size <= (*hdr).slack as usize {
                    if !redzones_ok(p, size) {
                        record(st, ErrKind::RedZone, p, size as u64, 0);
                    }
                    std::ptr::write_bytes((p + size) as *mut u8, POISON_FRESH, new_size - size);
                    std::ptr::write_bytes((p + new_size) as *mut u8, CANARY, RED);
                    (*hdr).slack -= (new_size - size) as u32;
                    (*hdr).size = new_size as u64;
                    (*st).live_bytes.fetch_add((new_size - size) as u64, Ordering::Relaxed);
                    (*st).total_allocs += 1;
                    return ptr;
                }
            }
        }
        // otherwise always move: maximises the chance that a stale pointer is noticed.
        let new_layout = Layout::from_size_align_unchecked(new_size, layout.align());
        let np = self.alloc(new_layout);
        if !np.is_null() {
            std::ptr::copy_nonoverlapping(ptr, np, layout.size().min(new_size));
            self.dealloc(ptr, layout);
        }
        np
    }
}
