//! Small helpers: 128-bit state hash, crash reporter, panic capture, JSON string escaping.

use std::sync::atomic::{AtomicU64, AtomicUsize, Ordering};
use std::cell::{Cell, RefCell};

/// 128-bit hash of a byte string (two independent 64-bit mixers).
pub fn hash128(bytes: &[u8]) -> u128 {
    let mut a: u64 = 0xcbf2_9ce4_8422_2325;
    let mut b: u64 = 0x9e37_79b9_7f4a_7c15;
    for &x in bytes {
        a ^= x as u64;
        a = a.wrapping_mul(0x0000_0100_0000_01b3);
        b = (b ^ (x as u64).wrapping_add(0x9e37_79b9)).wrapping_mul(0xff51_afd7_ed55_8ccd);
        b ^= b >> 29;
    }
    a ^= a >> 32;
    a = a.wrapping_mul(0xd6e8_feb8_6659_fd93);
    a ^= a >> 32;
    b ^= b >> 33;
    b = b.wrapping_mul(0xc4ce_b9fe_1a85_ec53);
    b ^= b >> 33;
    ((a as u128) << 64) | b as u128
}

pub fn json_str(s: &str) -> String {
    let mut o = String::with_capacity(s.len() + 2);
    o.push('"');
    for c in s.chars() {
        match c {
            '"' => o.push_str("\\\""),
            '\\' => o.push_str("\\\\"),
            '\n' => o.push_str("\\n"),
            '\t' => o.push_str("\\t"),
            c if (c as u32) < 0x20 => o.push_str(&format!("\\u{:04x}", c as u32)),
            c => o.push(c),
        }
    }
    o.push('"');
    o
}

// ---------------------------------------------------------------------------------------------
// Crash slot: the descriptor of the execution a thread is about to start.  std's
// unsafe-precondition checks abort instead of unwinding; the signal handler prints the descriptor
// of the crashing thread so the supervisor can turn it into a replayable violation.

const SLOT: usize = 512;
thread_local! {
    static CRASH_SLOT: Cell<[u8; SLOT]> = const { Cell::new([0; SLOT]) };
    static CRASH_LEN: Cell<usize> = const { Cell::new(0) };
    static PANIC_SLOT: Cell<[u8; SLOT]> = const { Cell::new([0; SLOT]) };
    static PANIC_LEN: Cell<usize> = const { Cell::new(0) };
}

// Hang watchdog: every thread that announces executions registers itself; a watchdog thread notices when no
// execution has been announced anywhere for `HANG_SECS` and delivers SIGUSR1 to the registered thread that burnt the
// most CPU time meanwhile (or, if none did, the one that announced last): its crash handler then prints that thread's
// descriptor, exactly as for an abort, and the process exits.  A non-terminating operation thus becomes a replayable
// violation instead of an engine that never returns.
const MAX_WATCHED: usize = 64;
static PROGRESS: AtomicU64 = AtomicU64::new(0);
static NWATCHED: AtomicUsize = AtomicUsize::new(0);
static WATCHED_TID: [AtomicU64; MAX_WATCHED] = [const { AtomicU64::new(0) }; MAX_WATCHED];
static WATCHED_LAST: [AtomicU64; MAX_WATCHED] = [const { AtomicU64::new(0) }; MAX_WATCHED];
pub static HANG_SECS: AtomicU64 = AtomicU64::new(90);
struct WatchSlot(Cell<usize>);
impl Drop for WatchSlot {
    fn drop(&mut self) {
        let i = self.0.get();
        if i < MAX_WATCHED {
            WATCHED_TID[i].store(0, Ordering::SeqCst);
        }
    }
}
thread_local! {
    static WATCH_INDEX: WatchSlot = const { WatchSlot(Cell::new(usize::MAX)) };
}

fn thread_cpu_ns(tid: libc::pthread_t) -> u64 {
    unsafe {
        let mut cid: libc::clockid_t = 0;
        if libc::pthread_getcpuclockid(tid, &mut cid) != 0 {
            return 0;
        }
        let mut ts: libc::timespec = std::mem::zeroed();
        if libc::clock_gettime(cid, &mut ts) != 0 {
            return 0;
        }
        ts.tv_sec as u64 * 1_000_000_000 + ts.tv_nsec as u64
    }
}

fn watchdog() {
    let mut last = PROGRESS.load(Ordering::Relaxed);
    let mut since = std::time::Instant::now();
    let mut cpu0: Vec<u64> = Vec::new();
    loop {
        std::thread::sleep(std::time::Duration::from_millis(500));
        let now = PROGRESS.load(Ordering::Relaxed);
        let n = NWATCHED.load(Ordering::Relaxed).min(MAX_WATCHED);
        if now != last || n == 0 {
            last = now;
            since = std::time::Instant::now();
            cpu0 = (0..n).map(|i| match WATCHED_TID[i].load(Ordering::SeqCst) { 0 => 0, t => thread_cpu_ns(t as libc::pthread_t) }).collect();
            continue;
        }
        if since.elapsed().as_secs() < HANG_SECS.load(Ordering::Relaxed) {
            continue;
        }
        // nobody announced an execution for HANG_SECS: blame the busiest registered thread
        let mut best = (0usize, 0u64);
        let mut any = false;
        for i in 0..n {
            let t = WATCHED_TID[i].load(Ordering::SeqCst);
            if t == 0 {
                continue;
            }
            any = true;
            let c = thread_cpu_ns(t as libc::pthread_t).saturating_sub(cpu0.get(i).copied().unwrap_or(0));
            if c > best.1 {
                best = (i, c);
            }
        }
        if !any {
            since = std::time::Instant::now();
            continue;
        }
        if best.1 < 1_000_000_000 {
            // no thread is computing (a wait that never ends): the thread that announced most recently
            let mut latest = (0usize, 0u64);
            for i in 0..n {
                let t = WATCHED_LAST[i].load(Ordering::Relaxed);
                if WATCHED_TID[i].load(Ordering::SeqCst) != 0 && t >= latest.1 {
                    latest = (i, t);
                }
            }
            best.0 = latest.0;
        }
        let victim = WATCHED_TID[best.0].load(Ordering::SeqCst);
        if victim == 0 {
            since = std::time::Instant::now();
            continue;
        }
        unsafe {
            libc::pthread_kill(victim as libc::pthread_t, libc::SIGUSR1);
        }
        std::thread::sleep(std::time::Duration::from_secs(5));
        unsafe { libc::_exit(71) };
    }
}

pub fn set_crash_descriptor(desc: &str) {
    let seq = PROGRESS.fetch_add(1, Ordering::Relaxed) + 1;
    let _ = WATCH_INDEX.try_with(|w| {
        let w = &w.0;
        if w.get() == usize::MAX {
            w.set(usize::MAX - 1);
            let me = unsafe { libc::pthread_self() } as u64;
            for i in 0..MAX_WATCHED {
                if WATCHED_TID[i].compare_exchange(0, me, Ordering::SeqCst, Ordering::SeqCst).is_ok() {
                    w.set(i);
                    NWATCHED.fetch_max(i + 1, Ordering::Relaxed);
                    break;
                }
            }
        }
        if w.get() < MAX_WATCHED {
            WATCHED_LAST[w.get()].store(seq, Ordering::Relaxed);
        }
    });
    let mut buf = [0u8; SLOT];
    let n = desc.len().min(SLOT);
    buf[..n].copy_from_slice(&desc.as_bytes()[..n]);
    CRASH_SLOT.with(|c| c.set(buf));
    CRASH_LEN.with(|c| c.set(n));
}

extern "C" fn on_fatal(sig: libc::c_int) {
    // Async-signal-safe: only write(2) and _exit(2).
    let msg = b"\nCRASH signal=";
    unsafe {
        libc::write(1, msg.as_ptr() as *const _, msg.len());
        let d = [b'0' + (sig / 10) as u8, b'0' + (sig % 10) as u8, b' '];
        libc::write(1, d.as_ptr() as *const _, 3);
        let pre = b"desc=";
        libc::write(1, pre.as_ptr() as *const _, pre.len());
        let buf = CRASH_SLOT.with(|c| c.get());
        let n = CRASH_LEN.with(|c| c.get());
        libc::write(1, buf.as_ptr() as *const _, n);
        let pre = b" last_panic=";
        libc::write(1, pre.as_ptr() as *const _, pre.len());
        let buf = PANIC_SLOT.with(|c| c.get());
        let n = PANIC_LEN.with(|c| c.get());
        libc::write(1, buf.as_ptr() as *const _, n);
        libc::write(1, b"\n".as_ptr() as *const _, 1);
        libc::_exit(70);
    }
}

pub fn install_crash_handler() {
    unsafe {
        for sig in [libc::SIGABRT, libc::SIGSEGV, libc::SIGBUS, libc::SIGILL, libc::SIGFPE, libc::SIGUSR1] {
            let mut sa: libc::sigaction = std::mem::zeroed();
            sa.sa_sigaction = on_fatal as usize;
            sa.sa_flags = libc::SA_NODEFER;
            libc::sigaction(sig, &sa, std::ptr::null_mut());
        }
    }
    static STARTED: std::sync::Once = std::sync::Once::new();
    STARTED.call_once(|| {
        if let Ok(v) = std::env::var("VERIF_HANG_SECS") {
            if let Ok(n) = v.parse::<u64>() {
                HANG_SECS.store(n, Ordering::Relaxed);
            }
        }
        let _ = std::thread::Builder::new().name("hang-watchdog".into()).spawn(watchdog);
    });
}

// ---------------------------------------------------------------------------------------------
// Panic capture: silent hook that remembers message + location of the last panic on this thread.

thread_local! {
    static LAST_PANIC: RefCell<String> = const { RefCell::new(String::new()) };
}

pub fn install_quiet_panic_hook() {
    std::panic::set_hook(Box::new(|info| {
        crate::arena::with_system(|| {
            let msg = if let Some(s) = info.payload().downcast_ref::<&str>() {
                s.to_string()
            } else if let Some(s) = info.payload().downcast_ref::<String>() {
                s.clone()
            } else if info.payload().downcast_ref::<crate::comp::InjectedPanic>().is_some() {
                "<injected>".to_string()
            } else {
                "<non-string panic>".to_string()
            };
            let loc = info.location().map(|l| format!("{}:{}", l.file(), l.line())).unwrap_or_default();
            {
                let text = format!("{msg} @ {loc}");
                let mut buf = [0u8; SLOT];
                let n = text.len().min(SLOT);
                buf[..n].copy_from_slice(&text.as_bytes()[..n]);
                PANIC_SLOT.with(|c| c.set(buf));
                PANIC_LEN.with(|c| c.set(n));
            }
            LAST_PANIC.with(|p| {
                if let Ok(mut g) = p.try_borrow_mut() {
                    *g = format!("{msg} @ {loc}");
                }
            });
        })
    }));
}

pub fn take_last_panic() -> String {
    crate::arena::with_system(|| LAST_PANIC.with(|p| std::mem::take(&mut *p.borrow_mut())))
}
