//! Instrumented component / resource types and the per-execution ledger.
//!
//! Every non-ZST value carries `(serial, tag, val)`.  The ledger knows which serials are live, so a
//! second drop of one value, a read of a dropped / poisoned / foreign-typed slot, and a value that
//! is never dropped are all observable.  All user callbacks (`Clone`, `Drop`, `PartialEq`, `Debug`,
//! `Serialize`, `Deserialize`, system bodies) tick a per-kind counter that the fault engine can arm.

use crate::arena;
use serde::{Deserialize, Deserializer, Serialize, Serializer};
use std::cell::RefCell;

#[derive(Clone, Copy, Debug, PartialEq, Eq, PartialOrd, Ord, Hash)]
#[repr(usize)]
pub enum Cb {
    Clone = 0,
    Drop = 1,
    Serialize = 2,
    Deserialize = 3,
    PartialEq = 4,
    Debug = 5,
    System = 6,
    /// not a callback of its own: the k-th `Serialize` call *returns an error* instead of panicking
    SerializeErr = 7,
    /// the k-th `Deserialize` call returns an error
    DeserializeErr = 8,
}
pub const NCB: usize = 9;
pub const CB_ALL: [Cb; NCB] = [Cb::Clone, Cb::Drop, Cb::Serialize, Cb::Deserialize, Cb::PartialEq, Cb::Debug, Cb::System, Cb::SerializeErr, Cb::DeserializeErr];
impl Cb {
    /// the armed fault is an ordinary error return, not a panic
    pub fn is_error_return(self) -> bool {
        matches!(self, Cb::SerializeErr | Cb::DeserializeErr)
    }
}

#[derive(Clone, Debug, PartialEq, Eq)]
pub enum TokErr {
    DoubleDrop { serial: u64, tag: u32 },
    DropUnknown { serial: u64, tag: u32 },
    TagMismatch { expected: u32, found: u32, serial: u64 },
    PoisonFreed { expected: u32 },
    Uninit { expected: u32 },
    NotLive { serial: u64, tag: u32 },
    BoxMismatch { serial: u64, found: u64 },
    ZstUnderflow { tag: u32 },
    NotInLiveBlock { addr: usize, tag: u32 },
}

pub struct Ledger {
    pub next_serial: u64,
    /// state per serial: 1 live, 2 dropped.
    pub state: Vec<u8>,
    pub tags: Vec<u32>,
    pub errors: Vec<TokErr>,
    pub zst_live: [i64; 16],
    pub calls: [u64; NCB],
    pub armed: Option<(Cb, u64)>,
    pub fired: bool,
    pub next_val: u32,
    /// serial of the value behind every `Drop` callback so far, in call order (0 for zero-sized values); lets the fault
    /// engine say which value the k-th `Drop` call of an operation destroys before it arms that call
    pub drop_trace: Vec<u64>,
    /// serial of the SOURCE value of every `Clone` callback so far, in call order (0 for zero-sized values)
    pub clone_trace: Vec<u64>,
}

impl Ledger {
    pub fn new() -> Self {
        Ledger {
            next_serial: 1,
            state: vec![0],
            tags: vec![0],
            errors: Vec::new(),
            zst_live: [0; 16],
            calls: [0; NCB],
            armed: None,
            drop_trace: Vec::new(),
            clone_trace: Vec::new(),
            fired: false,
            next_val: 100,
        }
    }
    pub fn live_serials(&self) -> Vec<u64> {
        (1..self.state.len() as u64).filter(|&s| self.state[s as usize] == 1).collect()
    }
    pub fn live_count(&self) -> usize {
        self.state.iter().filter(|&&s| s == 1).count()
    }
}

thread_local! {
    static LEDGER: RefCell<Option<Ledger>> = const { RefCell::new(None) };
}

/// Installs a fresh ledger for the calling thread (call after `arena::begin`).
pub fn ledger_begin() {
    LEDGER.with(|l| *l.borrow_mut() = Some(Ledger::new()));
}

/// Removes the ledger; returns it (allocated in whatever allocator was active when it grew).
pub fn ledger_end() -> Option<Ledger> {
    LEDGER.with(|l| l.borrow_mut().take())
}

pub fn with_ledger<T>(f: impl FnOnce(&mut Ledger) -> T) -> Option<T> {
    LEDGER.with(|l| match l.try_borrow_mut() {
        Ok(mut g) => g.as_mut().map(f),
        Err(_) => None,
    })
}

pub fn arm(cb: Cb, k: u64) {
    with_ledger(|l| {
        l.armed = Some((cb, k));
        l.fired = false;
    });
}
pub fn disarm() {
    with_ledger(|l| l.armed = None);
}
pub fn calls() -> [u64; NCB] {
    with_ledger(|l| l.calls).unwrap_or([0; NCB])
}
pub fn fired() -> bool {
    with_ledger(|l| l.fired).unwrap_or(false)
}
pub fn fresh_val() -> u32 {
    with_ledger(|l| {
        l.next_val += 1;
        l.next_val
    })
    .unwrap_or(0)
}
pub fn token_errors() -> usize {
    with_ledger(|l| l.errors.len()).unwrap_or(0)
}

pub struct InjectedPanic(pub Cb, pub u64);

/// Counts a user callback and panics if the fault engine armed exactly this call.
fn note_clone(serial: u64) {
    with_ledger(|l| l.clone_trace.push(serial));
}

pub fn tick(cb: Cb) {
    let fire = with_ledger(|l| {
        let k = l.calls[cb as usize];
        l.calls[cb as usize] += 1;
        if l.armed == Some((cb, k)) {
            l.armed = None;
            l.fired = true;
            Some(k)
        } else {
            None
        }
    })
    .flatten();
    if let Some(k) = fire {
        std::panic::panic_any(InjectedPanic(cb, k));
    }
}

/// `tick` for a callback that can also fail by returning an error: counts the call under both kinds, panics when the
/// panic kind is armed for this call, and answers `true` when the error kind is.
pub fn tick_fallible(cb: Cb, err_cb: Cb) -> bool {
    let fire = with_ledger(|l| {
        let k = l.calls[cb as usize];
        l.calls[cb as usize] += 1;
        l.calls[err_cb as usize] += 1;
        if l.armed == Some((cb, k)) {
            l.armed = None;
            l.fired = true;
            1
        } else if l.armed == Some((err_cb, k)) {
            l.armed = None;
            l.fired = true;
            2
        } else {
            0
        }
    })
    .unwrap_or(0);
    if fire == 1 {
        let k = with_ledger(|l| l.calls[cb as usize] - 1).unwrap_or(0);
        std::panic::panic_any(InjectedPanic(cb, k));
    }
    fire == 2
}

fn new_serial(tag: u32) -> u64 {
    with_ledger(|l| {
        let s = l.next_serial;
        l.next_serial += 1;
        l.state.push(1);
        l.tags.push(tag);
        s
    })
    .unwrap_or(0)
}

fn err(e: TokErr) {
    with_ledger(|l| {
        if l.errors.len() < 64 {
            l.errors.push(e)
        }
    });
}

#[derive(Debug)]
#[repr(C)]
pub struct Tok {
    pub serial: u64,
    pub tag: u32,
    pub val: u32,
}

impl Tok {
    fn new(tag: u32, val: u32) -> Tok {
        Tok { serial: new_serial(tag), tag, val }
    }
    /// Checks the token behind a reference handed out by the library.
    pub fn check(&self, expected: u32) -> bool {
        if self.tag != expected {
            let raw = self.tag;
            if raw == 0xDDDD_DDDD {
                err(TokErr::PoisonFreed { expected });
            } else if raw == 0xCDCD_CDCD {
                err(TokErr::Uninit { expected });
            } else {
                err(TokErr::TagMismatch { expected, found: raw, serial: self.serial });
            }
            return false;
        }
        let ok = with_ledger(|l| (self.serial as usize) < l.state.len() && l.state[self.serial as usize] == 1).unwrap_or(true);
        if !ok {
            err(TokErr::NotLive { serial: self.serial, tag: self.tag });
            return false;
        }
        // A reference into arena memory must point into a block that is still allocated.
        if let Some(false) = arena::classify(self as *const Tok as usize) {
            err(TokErr::NotInLiveBlock { addr: self as *const Tok as usize, tag: expected });
            return false;
        }
        true
    }
    fn on_drop(&mut self) {
        let (serial, tag) = (self.serial, self.tag);
        with_ledger(|l| {
            l.drop_trace.push(serial);
            let s = serial as usize;
            if s == 0 || s >= l.state.len() || l.tags[s] != tag {
                if l.errors.len() < 64 {
                    l.errors.push(TokErr::DropUnknown { serial, tag });
                }
            } else if l.state[s] == 2 {
                if l.errors.len() < 64 {
                    l.errors.push(TokErr::DoubleDrop { serial, tag });
                }
            } else {
                l.state[s] = 2;
            }
        });
    }
}

pub const KIND_SMALL: u32 = 0x5100;
pub const KIND_HEAP: u32 = 0x4800;
pub const KIND_BIG: u32 = 0xB100;
pub const KIND_ZST: u32 = 0x2500;

/// Common interface of the instrumented component types.
pub trait Comp: Sized + 'static {
    const TAG: u32;
    const IS_ZST: bool;
    fn make(val: u32) -> Self;
    /// Checks the token and returns `(val, serial)`; `(0, 0)` for ZSTs.
    fn read(&self) -> (u32, u64);
    fn set(&mut self, val: u32);
}

// ---------------------------------------------------------------------------------------------
// Small: plain inline token.

pub struct Small<const K: u32>(pub Tok);

impl<const K: u32> Comp for Small<K> {
    const TAG: u32 = KIND_SMALL | K;
    const IS_ZST: bool = false;
    fn make(val: u32) -> Self {
        Small(Tok::new(Self::TAG, val))
    }
    fn read(&self) -> (u32, u64) {
        self.0.check(Self::TAG);
        (self.0.val, self.0.serial)
    }
    fn set(&mut self, val: u32) {
        self.0.check(Self::TAG);
        self.0.val = val;
    }
}
impl<const K: u32> Drop for Small<K> {
    fn drop(&mut self) {
        self.0.on_drop();
        tick(Cb::Drop);
    }
}
impl<const K: u32> Clone for Small<K> {
    fn clone(&self) -> Self {
        note_clone(self.0.serial);
        tick(Cb::Clone);
        self.0.check(Self::TAG);
        Self::make(self.0.val)
    }
}

// ---------------------------------------------------------------------------------------------
// Heap: owns a boxed copy of its serial, so bitwise duplication / stale bytes show up as an
// allocator error or a box mismatch.

pub struct Heap<const K: u32> {
    pub tok: Tok,
    boxed: Box<u64>,
}

impl<const K: u32> Comp for Heap<K> {
    const TAG: u32 = KIND_HEAP | K;
    const IS_ZST: bool = false;
    fn make(val: u32) -> Self {
        let tok = Tok::new(Self::TAG, val);
        let boxed = Box::new(tok.serial);
        Heap { tok, boxed }
    }
    fn read(&self) -> (u32, u64) {
        if self.tok.check(Self::TAG) && *self.boxed != self.tok.serial {
            err(TokErr::BoxMismatch { serial: self.tok.serial, found: *self.boxed });
        }
        (self.tok.val, self.tok.serial)
    }
    fn set(&mut self, val: u32) {
        self.read();
        self.tok.val = val;
    }
}
impl<const K: u32> Drop for Heap<K> {
    fn drop(&mut self) {
        self.tok.on_drop();
        tick(Cb::Drop);
    }
}
impl<const K: u32> Clone for Heap<K> {
    fn clone(&self) -> Self {
        note_clone(self.tok.serial);
        tick(Cb::Clone);
        self.read();
        Self::make(self.tok.val)
    }
}

// ---------------------------------------------------------------------------------------------
// Big: over-aligned (64) and larger than a cache line.

#[repr(C, align(64))]
pub struct Big<const K: u32> {
    pub tok: Tok,
    pad: [u8; 72],
}

impl<const K: u32> Comp for Big<K> {
    const TAG: u32 = KIND_BIG | K;
    const IS_ZST: bool = false;
    fn make(val: u32) -> Self {
        Big { tok: Tok::new(Self::TAG, val), pad: [0x77; 72] }
    }
    fn read(&self) -> (u32, u64) {
        if (self as *const Self as usize) % 64 != 0 {
            err(TokErr::TagMismatch { expected: Self::TAG, found: 0xA116_0000, serial: self.tok.serial });
        }
        if self.tok.check(Self::TAG) && self.pad.iter().any(|&b| b != 0x77) {
            err(TokErr::TagMismatch { expected: Self::TAG, found: 0x7777_0000, serial: self.tok.serial });
        }
        (self.tok.val, self.tok.serial)
    }
    fn set(&mut self, val: u32) {
        self.read();
        self.tok.val = val;
    }
}
impl<const K: u32> Drop for Big<K> {
    fn drop(&mut self) {
        self.tok.on_drop();
        tick(Cb::Drop);
    }
}
impl<const K: u32> Clone for Big<K> {
    fn clone(&self) -> Self {
        note_clone(self.tok.serial);
        tick(Cb::Clone);
        self.read();
        Self::make(self.tok.val)
    }
}

// ---------------------------------------------------------------------------------------------
// Zst: counted per type.

pub struct Zst<const K: u32>;

impl<const K: u32> Comp for Zst<K> {
    const TAG: u32 = KIND_ZST | K;
    const IS_ZST: bool = true;
    fn make(_val: u32) -> Self {
        with_ledger(|l| l.zst_live[(K % 16) as usize] += 1);
        Zst
    }
    fn read(&self) -> (u32, u64) {
        (0, 0)
    }
    fn set(&mut self, _val: u32) {}
}
impl<const K: u32> Drop for Zst<K> {
    fn drop(&mut self) {
        with_ledger(|l| {
            l.drop_trace.push(0);
            l.zst_live[(K % 16) as usize] -= 1;
            if l.zst_live[(K % 16) as usize] < 0 && l.errors.len() < 64 {
                l.errors.push(TokErr::ZstUnderflow { tag: KIND_ZST | K });
            }
        });
        tick(Cb::Drop);
    }
}
impl<const K: u32> Clone for Zst<K> {
    fn clone(&self) -> Self {
        note_clone(0);
        tick(Cb::Clone);
        Self::make(0)
    }
}

pub fn zst_live(k: u32) -> i64 {
    with_ledger(|l| l.zst_live[(k % 16) as usize]).unwrap_or(0)
}

// ---------------------------------------------------------------------------------------------
// Shared trait impls.

macro_rules! common_impls {
    ($ty:ident) => {
        impl<const K: u32> PartialEq for $ty<K> {
            fn eq(&self, other: &Self) -> bool {
                tick(Cb::PartialEq);
                self.read().0 == other.read().0
            }
        }
        impl<const K: u32> std::fmt::Debug for $ty<K> {
            fn fmt(&self, f: &mut std::fmt::Formatter<'_>) -> std::fmt::Result {
                tick(Cb::Debug);
                write!(f, "{}#{}({})", stringify!($ty), K, self.read().0)
            }
        }
        impl<const K: u32> Serialize for $ty<K> {
            fn serialize<S: Serializer>(&self, s: S) -> Result<S::Ok, S::Error> {
                if tick_fallible(Cb::Serialize, Cb::SerializeErr) {
                    return Err(serde::ser::Error::custom("injected serialization error"));
                }
                s.serialize_u32(self.read().0)
            }
        }
        impl<'de, const K: u32> Deserialize<'de> for $ty<K> {
            fn deserialize<D: Deserializer<'de>>(d: D) -> Result<Self, D::Error> {
                if tick_fallible(Cb::Deserialize, Cb::DeserializeErr) {
                    return Err(serde::de::Error::custom("injected deserialization error"));
                }
                let v = u32::deserialize(d)?;
                Ok(Self::make(v))
            }
        }
    };
}
common_impls!(Small);
common_impls!(Heap);
common_impls!(Big);

impl<const K: u32> PartialEq for Zst<K> {
    fn eq(&self, _other: &Self) -> bool {
        tick(Cb::PartialEq);
        true
    }
}
impl<const K: u32> std::fmt::Debug for Zst<K> {
    fn fmt(&self, f: &mut std::fmt::Formatter<'_>) -> std::fmt::Result {
        tick(Cb::Debug);
        write!(f, "Zst#{}", K)
    }
}
impl<const K: u32> Serialize for Zst<K> {
    fn serialize<S: Serializer>(&self, s: S) -> Result<S::Ok, S::Error> {
        if tick_fallible(Cb::Serialize, Cb::SerializeErr) {
            return Err(serde::ser::Error::custom("injected serialization error"));
        }
        s.serialize_unit()
    }
}
impl<'de, const K: u32> Deserialize<'de> for Zst<K> {
    fn deserialize<D: Deserializer<'de>>(d: D) -> Result<Self, D::Error> {
        if tick_fallible(Cb::Deserialize, Cb::DeserializeErr) {
            return Err(serde::de::Error::custom("injected deserialization error"));
        }
        <()>::deserialize(d)?;
        Ok(Self::make(0))
    }
}
