//! E5: fault enumeration.
//!   c17: for every (base world, operation that calls user code, callback kind, call index k): arm a panic
//!        at exactly that call, run the operation, then judge four aftermaths with the ledger + arena.
//!   c11: for every single (thorough: double) edit of every base serialization: deserialize, then
//!        Err / fully-valid-world dichotomy.

use brood::{
    entity,
    query::{filter, result, Result, Views},
    registry,
    system::{schedule::task, ParSystem, System},
    Query,
};
use mccore::comp::{self, Cb, Comp, TokErr, CB_ALL, NCB};
use mccore::s4::*;
use mccore::{arena, util};
use rayon::iter::ParallelIterator;
use std::collections::BTreeMap;
use std::mem::ManuallyDrop;
use std::panic::{catch_unwind, AssertUnwindSafe};
use std::time::Instant;

mod c11;
mod shifted;

#[global_allocator]
static GLOBAL: arena::Arena = arena::Arena;

pub fn base_alphabet() -> Vec<Op> {
    use Op::*;
    vec![
        Insert { mask: 5, rev: true },
        Insert { mask: 15, rev: false },
        Insert { mask: 11, rev: false },
        Extend { mask: 5, n: 2, style: 0 },
        Remove(Tgt::Lo),
        Add(Tgt::Lo, 3),
        Snapshot,
        Insert { mask: 2, rev: false },
        // used by the explicit extra bases only (`extra_bases`); `bases` enumerates the first NBASE_OPS operations
        Remove(Tgt::Mid),
        MutQ(0),
        // tables that lack the first registry component(s) but hold two later ones (C11's extra bases)
        Insert { mask: 12, rev: false },
        Insert { mask: 14, rev: true },
    ]
}

/// Serialization bases beyond the enumerated ones: tables whose identifier has absent components before present ones
/// (O,B / Z,O,B), alone and next to a table that starts with the first component.
pub fn extra_ser_bases() -> Vec<Vec<u8>> {
    vec![vec![10], vec![11, 11], vec![10, 0]]
}

pub const NBASE_OPS: u8 = 8;

/// Bases beyond the enumerated ones, for `clone_from` from a snapshot the destination has moved away from in a
/// way that keeps every destination table a row-prefix of the source's (or identical up to values).
pub fn extra_bases() -> Vec<Vec<u8>> {
    vec![vec![3, 6, 8], vec![0, 6, 4], vec![0, 6, 9], vec![3, 6, 9], vec![1, 3, 6, 8], vec![3, 0, 6, 9], vec![1, 6, 4]]
}

/// All histories over the base alphabet up to `depth` that are enabled (deduplicated by canonical state).
pub fn bases(depth: usize) -> Vec<Vec<u8>> {
    let ops = base_alphabet();
    let mut seen = std::collections::HashSet::new();
    let mut out: Vec<Vec<u8>> = vec![vec![]];
    let mut frontier: Vec<Vec<u8>> = vec![vec![]];
    for _ in 0..depth {
        let mut next = Vec::new();
        for h in &frontier {
            for oi in 0..NBASE_OPS {
                let mut h2 = h.clone();
                h2.push(oi);
                arena::begin(0);
                comp::ledger_begin();
                let key = {
                    let mut ex = Exec::new();
                    let mut chk = Checker::default();
                    let mut ok = true;
                    for &o in &h2 {
                        if ex.apply(&ops[o as usize], &mut chk) == Step::Disabled {
                            ok = false;
                            break;
                        }
                    }
                    if ok { Some(util::hash128(&ex.canon())) } else { None }
                };
                drop(comp::ledger_end());
                let _ = arena::end();
                if let Some(k) = key {
                    if seen.insert(k) {
                        next.push(h2.clone());
                        out.push(h2);
                    }
                }
            }
        }
        frontier = next;
    }
    out
}

pub fn build(ops: &[Op], hist: &[u8]) -> Exec {
    let mut ex = Exec::new();
    let mut chk = Checker::default();
    for &oi in hist {
        if ex.apply(&ops[oi as usize], &mut chk) == Step::Disabled {
            panic!("machinery: disabled op while building a base");
        }
    }
    ex
}

// ---------------------------------------------------------------------------------------------
// Systems whose bodies tick the `System` callback once per entity

struct SysMut;
impl System for SysMut {
    type Views<'a> = Views!(&'a mut A, Option<&'a B>);
    type Filter = filter::None;
    type ResourceViews<'a> = Views!(&'a mut R0);
    type EntryViews<'a> = Views!();
    fn run<'a, R, S, I, E>(&mut self, qr: Result<'a, R, S, I, Self::ResourceViews<'a>, Self::EntryViews<'a>, E>)
    where
        R: registry::ContainsViews<'a, Self::EntryViews<'a>, E>,
        I: Iterator<Item = Self::Views<'a>>,
    {
        let result!(r0) = qr.resources;
        r0.read();
        for result!(a, b) in qr.iter {
            comp::tick(Cb::System);
            let v = a.read().0;
            a.set(v + 1);
            if let Some(b) = b {
                b.read();
            }
        }
    }
}

struct SysRead;
impl System for SysRead {
    type Views<'a> = Views!(&'a O, entity::Identifier);
    type Filter = filter::None;
    type ResourceViews<'a> = Views!();
    type EntryViews<'a> = Views!();
    fn run<'a, R, S, I, E>(&mut self, qr: Result<'a, R, S, I, Self::ResourceViews<'a>, Self::EntryViews<'a>, E>)
    where
        R: registry::ContainsViews<'a, Self::EntryViews<'a>, E>,
        I: Iterator<Item = Self::Views<'a>>,
    {
        for result!(o, _id) in qr.iter {
            comp::tick(Cb::System);
            o.read();
        }
    }
}

struct ParMut;
impl ParSystem for ParMut {
    type Views<'a> = Views!(&'a mut B, Option<&'a A>);
    type Filter = filter::None;
    type ResourceViews<'a> = Views!();
    type EntryViews<'a> = Views!();
    fn run<'a, R, S, I, E>(&mut self, qr: Result<'a, R, S, I, Self::ResourceViews<'a>, Self::EntryViews<'a>, E>)
    where
        R: registry::ContainsViews<'a, Self::EntryViews<'a>, E>,
        I: ParallelIterator<Item = Self::Views<'a>>,
    {
        qr.iter.for_each(|result!(b, a)| {
            comp::tick(Cb::System);
            let v = b.read().0;
            b.set(v + 1);
            if let Some(a) = a {
                a.read();
            }
        });
    }
}

// ---------------------------------------------------------------------------------------------
// Faulted operations

#[derive(Clone, Copy, Debug, PartialEq, Eq)]
pub enum FOp {
    Remove(u8),
    Clear,
    Add(u8, u8),
    RemoveComp(u8, u8),
    Clone,
    CloneFrom(u8),
    DropWorld,
    SerJson,
    SerTok(bool),
    DeJson,
    DeTok(bool),
    Eq,
    Debug,
    RunSystem,
    RunParSystem,
    RunSchedule,
    ShrinkReserve,
    Extend,
    /// `Entry::add` (false) / `Entry::remove` (true) of component c on target t, the panic caught while the
    /// `Entry` handle is still held, then the opposite operation and a query through the SAME handle
    HandleReuse(u8, u8, bool),
}

impl FOp {
    pub fn kind(&self) -> &'static str {
        match self {
            FOp::Remove(_) => "remove",
            FOp::Clear => "clear",
            FOp::Add(..) => "entry_add",
            FOp::RemoveComp(..) => "entry_remove",
            FOp::Clone => "clone",
            FOp::CloneFrom(_) => "clone_from",
            FOp::DropWorld => "drop_world",
            FOp::SerJson => "serialize_json",
            FOp::SerTok(_) => "serialize_tokens",
            FOp::DeJson => "deserialize_json",
            FOp::DeTok(_) => "deserialize_tokens",
            FOp::Eq => "eq",
            FOp::Debug => "debug_fmt",
            FOp::RunSystem => "run_system",
            FOp::RunParSystem => "run_par_system",
            FOp::RunSchedule => "run_schedule",
            FOp::ShrinkReserve => "shrink_reserve",
            FOp::Extend => "extend_cloned_batch",
            FOp::HandleReuse(_, _, false) => "entry_add_then_same_handle",
            FOp::HandleReuse(_, _, true) => "entry_remove_then_same_handle",
        }
    }
}

pub fn all_fops() -> Vec<FOp> {
    let mut v = vec![FOp::Remove(0), FOp::Remove(1), FOp::Remove(2), FOp::Clear];
    for t in 0..2u8 {
        for c in 0..4u8 {
            v.push(FOp::Add(t, c));
            v.push(FOp::RemoveComp(t, c));
        }
    }
    v.push(FOp::Clone);
    for s in 0..6u8 {
        v.push(FOp::CloneFrom(s));
    }
    v.extend([
        FOp::DropWorld, FOp::SerJson, FOp::SerTok(false), FOp::SerTok(true), FOp::DeJson, FOp::DeTok(false), FOp::DeTok(true), FOp::Eq, FOp::Debug,
        FOp::RunSystem, FOp::RunParSystem, FOp::RunSchedule, FOp::ShrinkReserve, FOp::Extend,
    ]);
    // appended last so that the indices of the earlier operations (replay files) stay valid
    for t in 0..2u8 {
        for c in 0..4u8 {
            v.push(FOp::HandleReuse(t, c, false));
            v.push(FOp::HandleReuse(t, c, true));
        }
    }
    v
}

fn tgt(t: u8) -> Tgt {
    [Tgt::Lo, Tgt::Mid, Tgt::Hi][t as usize]
}

fn target(ex: &Exec, t: u8) -> Option<Id> {
    let live = ex.m.live_by_slot();
    match tgt(t) {
        Tgt::Lo => live.first().copied(),
        Tgt::Mid => live.get(1).copied(),
        Tgt::Hi => if live.len() >= 3 { live.last().copied() } else { None },
    }
}

/// Source worlds for clone_from (1..): built by fixed histories over the base alphabet.
fn clone_from_source(kind: u8) -> Option<Vec<u8>> {
    match kind {
        1 => Some(vec![]),              // empty world
        2 => Some(vec![0]),             // one (O,A) row
        3 => Some(vec![0, 3, 0]),       // four (O,A) rows (forces growth of a shorter destination column)
        4 => Some(vec![2, 2, 0]),       // (A,Z,B) x2 + (O,A) x1
        5 => Some(vec![3, 4, 1]),       // after a removal, plus a 4-column row
        _ => None,
    }
}

/// Prepared inputs that must be built *before* the fault is armed (they call user code themselves).
pub struct Prep {
    src: Option<W>,
    json: Option<String>,
    tokens: Option<serde_assert::Tokens>,
    other: Option<W>,
}

fn prepare(ex: &Exec, fop: FOp, ops: &[Op]) -> Option<Prep> {
    let mut p = Prep { src: None, json: None, tokens: None, other: None };
    match fop {
        FOp::Remove(t) | FOp::Add(t, _) | FOp::RemoveComp(t, _) | FOp::HandleReuse(t, _, _) => {
            target(ex, t)?;
        }
        FOp::CloneFrom(0) => {
            ex.aux.as_ref()?;
        }
        FOp::CloneFrom(k) => {
            let h = clone_from_source(k)?;
            let Exec { w, .. } = build(ops, &h);
            p.src = Some(w);
        }
        FOp::DeJson => p.json = Some(serde_json::to_string(&ex.w).ok()?),
        FOp::DeTok(h) => p.tokens = Some(to_tokens(&ex.w, h).ok()?),
        FOp::Eq => p.other = Some(ex.w.clone()),
        _ => {}
    }
    Some(p)
}

/// Runs the operation; returns worlds it produced (to be judged and dropped with the others).
fn apply_fop(ex: &mut Exec, fop: FOp, prep: &mut Prep, extra: &mut Vec<W>) {
    match fop {
        FOp::Remove(t) => {
            let id = target(ex, t).unwrap();
            ex.w.remove(mkid(id));
        }
        FOp::Clear => ex.w.clear(),
        FOp::Add(t, c) => {
            let id = target(ex, t).unwrap();
            let mut e = ex.w.entry(mkid(id)).unwrap();
            match c {
                0 => e.add(A::make(900)),
                1 => e.add(Z::make(0)),
                2 => e.add(O::make(902)),
                _ => e.add(B::make(903)),
            }
        }
        FOp::RemoveComp(t, c) => {
            let id = target(ex, t).unwrap();
            let mut e = ex.w.entry(mkid(id)).unwrap();
            match c {
                0 => e.remove::<A, _>(),
                1 => e.remove::<Z, _>(),
                2 => e.remove::<O, _>(),
                _ => e.remove::<B, _>(),
            }
        }
        FOp::Clone => extra.push(ex.w.clone()),
        FOp::CloneFrom(0) => {
            let aux = ex.aux.as_ref().unwrap();
            ex.w.clone_from(aux);
        }
        FOp::CloneFrom(_) => {
            ex.w.clone_from(prep.src.as_ref().unwrap());
        }
        FOp::DropWorld => {
            let (fresh, _) = new_world();
            let old = std::mem::replace(&mut ex.w, fresh);
            drop(old);
        }
        FOp::SerJson => {
            let _ = serde_json::to_string(&ex.w);
        }
        FOp::SerTok(h) => {
            let _ = to_tokens(&ex.w, h);
        }
        FOp::DeJson => {
            if let Ok(w) = serde_json::from_str::<W>(prep.json.as_ref().unwrap()) {
                extra.push(w);
            }
        }
        FOp::DeTok(h) => {
            if let Ok(w) = from_tokens(prep.tokens.take().unwrap(), h) {
                extra.push(w);
            }
        }
        FOp::Eq => {
            let _ = ex.w == *prep.other.as_ref().unwrap();
        }
        FOp::Debug => {
            let _ = format!("{:?}", ex.w);
        }
        FOp::RunSystem => {
            ex.w.run_system(&mut SysMut);
            ex.w.run_system(&mut SysRead);
        }
        FOp::RunParSystem => ex.w.run_par_system(&mut ParMut),
        FOp::RunSchedule => {
            let mut s = brood::system::schedule!(task::System(SysMut), task::ParSystem(ParMut), task::System(SysRead));
            ex.w.run_schedule(&mut s);
        }
        FOp::ShrinkReserve => {
            ex.w.reserve::<brood::Entity!(O, A), _>(3);
            ex.w.shrink_to_fit();
        }
        FOp::Extend => {
            let ids = ex.w.extend(brood::entities!((A::make(950), B::make(951)); 3));
            let _ = ids;
        }
        FOp::HandleReuse(t, c, remove_first) => {
            let id = target(ex, t).unwrap();
            let mut e = ex.w.entry(mkid(id)).unwrap();
            macro_rules! add {
                ($e:expr) => {
                    match c {
                        0 => $e.add(A::make(900)),
                        1 => $e.add(Z::make(0)),
                        2 => $e.add(O::make(902)),
                        _ => $e.add(B::make(903)),
                    }
                };
            }
            macro_rules! rem {
                ($e:expr) => {
                    match c {
                        0 => $e.remove::<A, _>(),
                        1 => $e.remove::<Z, _>(),
                        2 => $e.remove::<O, _>(),
                        _ => $e.remove::<B, _>(),
                    }
                };
            }
            let first = catch_unwind(AssertUnwindSafe(|| if remove_first { rem!(e) } else { add!(e) }));
            // the handle is used again whether or not the first call unwound
            if remove_first {
                add!(e);
            } else {
                rem!(e);
            }
            add!(e);
            if let Some(result!(a, z, o, b)) = e.query(Query::<Views!(Option<&A>, Option<&Z>, Option<&mut O>, Option<&B>)>::new()) {
                if let Some(a) = a {
                    a.read();
                }
                let _ = z;
                if let Some(o) = o {
                    let v = o.read().0;
                    o.set(v);
                }
                if let Some(b) = b {
                    b.read();
                }
            }
            if let Err(p) = first {
                std::panic::resume_unwind(p);
            }
        }
    }
}

#[derive(Clone, Debug)]
pub struct FaultFail {
    pub key: String,
    pub detail: String,
}

pub struct FaultOut {
    /// clone_from only: for every `Drop` call of the operation, where the destroyed value lived before the operation:
    /// 1 = in a destination table that the source has too, 2 = in a destination table the source lacks, 0 = elsewhere
    pub drop_sites: Vec<u8>,
    /// class of (destination, source, table being cloned) for every `Clone` call of a clone_from, from the unfaulted run
    pub clone_sites: Vec<u8>,
    pub enabled: bool,
    pub calls: [u64; NCB],
    pub fired: bool,
    pub reached_caller: bool,
    pub fails: Vec<FaultFail>,
    pub notes: Vec<String>,
    pub leaked_blocks: u64,
}

/// One execution: build the base, optionally arm a panic at call `k` of kind `cb` (counted from the start
/// of the operation), run the operation, run the aftermath, drop everything, judge.
pub const SITE_LABELS: [&str; 6] = ["clone_from fault site: elsewhere", "clone_from fault site: shared-table", "clone_from fault site: destination-only-table", "clone_from fault site: identical-source", "clone_from fault site: destination-is-row-prefix-of-source", "clone_from fault site: different-source"];
pub const SITE_NAMES: [&str; 6] = ["elsewhere", "shared-table", "destination-only-table", "identical-source", "destination-is-row-prefix-of-source", "different-source"];

/// For a `Clone` fault inside `clone_from`: how the destination relates to the source before the call, seen from the
/// table `cur` (first identifier byte) whose value is being cloned when the fault strikes.
/// 3: same tables, same identifiers in the same rows everywhere (nothing is truncated, nothing grows);
/// 4: every table but `cur` holds the same identifiers in the same rows on both sides, and the destination's `cur` table
///    holds a row-prefix of the source's with room for the source's rows in every column (values are replaced and
///    appended in place; nothing is truncated or reallocated, and every identifier the allocator knows keeps its row);
/// 5: anything else (rows truncated, columns reallocated, tables emptied or created, identifiers moving between rows,
///    or tables finished before the fault that gained identifiers the allocator does not know yet).
pub fn clone_site(d: &brood::verif::Dump, s: &brood::verif::Dump, cur: Option<u8>) -> u8 {
    let rows = |x: &brood::verif::Dump, m: u8| x.archetypes.iter().find(|a| a.id_bytes.first().copied().unwrap_or(0) == m).map(|a| a.entity_ids.clone()).unwrap_or_default();
    let masks: std::collections::BTreeSet<u8> = d.archetypes.iter().chain(s.archetypes.iter()).map(|a| a.id_bytes.first().copied().unwrap_or(0)).collect();
    let mut identical = true;
    for &m in &masks {
        let (rd, rs) = (rows(d, m), rows(s, m));
        if rd == rs {
            continue;
        }
        identical = false;
        if Some(m) != cur || rd.len() > rs.len() || rd[..] != rs[..rd.len()] {
            return 5;
        }
        let Some(a) = d.archetypes.iter().find(|a| a.id_bytes.first().copied().unwrap_or(0) == m) else { return 5 };
        if !(a.entity_col.1 >= rs.len() && a.columns.iter().all(|c| c.1 >= rs.len())) {
            return 5;
        }
    }
    if identical { 3 } else { 4 }
}

pub fn run_fault(ops: &[Op], base: &[u8], fop: FOp, inject: Option<(Cb, u64)>, aftermath: u8) -> FaultOut {
    run_fault_at(ops, base, fop, inject, aftermath, None)
}

/// `site`: for a `Drop` fault inside clone_from, the class of the value whose destructor is armed (from the unfaulted run);
/// it becomes part of the failure key, so that known findings are matched per site.
pub fn run_fault_at(ops: &[Op], base: &[u8], fop: FOp, inject: Option<(Cb, u64)>, aftermath: u8, site: Option<u8>) -> FaultOut {
    arena::begin(0);
    comp::ledger_begin();
    let mut out = FaultOut { clone_sites: Vec::new(), drop_sites: Vec::new(), enabled: true, calls: [0; NCB], fired: false, reached_caller: false, fails: vec![], notes: vec![], leaked_blocks: 0 };
    let mut fails: Vec<FaultFail> = Vec::new();
    let mut notes: Vec<String> = Vec::new();
    let kind = fop.kind();
    let cbname = inject.map_or("none".to_string(), |(c, _)| format!("{:?}", c));
    // a fault that is an ordinary error return (not a panic) is outside C17's statement: what it breaks is C05 / C04
    let owner = if inject.map_or(false, |(c, _)| c.is_error_return()) { "C05:" } else { "" };
    let site_txt = site.map_or(String::new(), |x| format!(" site={}", SITE_NAMES[x as usize]));
    let key = |what: &str| format!("{}{} op={} cb={}{}", owner, what, kind, cbname, site_txt);
    let r = catch_unwind(AssertUnwindSafe(|| {
        let mut ex = ManuallyDrop::new(build(ops, base));
        let Some(prep) = prepare(&ex, fop, ops) else {
            out.enabled = false;
            drop(ManuallyDrop::into_inner(ex));
            return;
        };
        let mut prep = ManuallyDrop::new(prep);
        let mut extra: ManuallyDrop<Vec<W>> = ManuallyDrop::new(Vec::new());
        // clone_from: where every value of the destination lives, and which tables the source has
        let mut dst_serial_mask: BTreeMap<u64, u8> = BTreeMap::new();
        let mut src_masks: std::collections::BTreeSet<u8> = Default::default();
        if matches!(fop, FOp::CloneFrom(_)) && inject.is_none() {
            for (_, row) in snapshot(&mut ex.w) {
                let mask = (0..4).fold(0u8, |m, c| m | ((row[c].is_some() as u8) << c));
                for x in row.iter().flatten() {
                    dst_serial_mask.insert(x.1, mask);
                }
            }
            let src: Option<&W> = match fop {
                FOp::CloneFrom(0) => ex.aux.as_ref(),
                _ => prep.src.as_ref(),
            };
            if let Some(src) = src {
                for a in &src.verif_dump().archetypes {
                    src_masks.insert(a.id_bytes.first().copied().unwrap_or(0));
                }
            }
        }
        // clone_from, unfaulted: the dumps before the call and the table every source value lives in
        let mut before: Option<(brood::verif::Dump, brood::verif::Dump, BTreeMap<u64, u8>)> = None;
        if matches!(fop, FOp::CloneFrom(_)) && inject.is_none() {
            let dd = ex.w.verif_dump();
            let src: Option<&mut W> = match fop {
                FOp::CloneFrom(0) => ex.aux.as_mut(),
                _ => prep.src.as_mut(),
            };
            if let Some(src) = src {
                let mut sm: BTreeMap<u64, u8> = BTreeMap::new();
                for (_, row) in snapshot(src) {
                    let mask = (0..4).fold(0u8, |m, c| m | ((row[c].is_some() as u8) << c));
                    for x in row.iter().flatten() {
                        sm.insert(x.1, mask);
                    }
                }
                before = Some((dd, src.verif_dump(), sm));
            }
        }
        let ctrace0 = comp::with_ledger(|l| l.clone_trace.len()).unwrap_or(0);
        let trace0 = comp::with_ledger(|l| l.drop_trace.len()).unwrap_or(0);
        let c0 = comp::calls();
        if let Some((cb, k)) = inject {
            comp::arm(cb, c0[cb as usize] + k);
        }
        let r = catch_unwind(AssertUnwindSafe(|| apply_fop(&mut ex, fop, &mut prep, &mut extra)));
        out.fired = comp::fired();
        comp::disarm();
        if matches!(fop, FOp::CloneFrom(_)) && inject.is_none() {
            let serials: Vec<u64> = comp::with_ledger(|l| l.drop_trace[trace0.min(l.drop_trace.len())..].to_vec()).unwrap_or_default();
            let sites: Vec<u8> = serials.iter().map(|s| match dst_serial_mask.get(s) { None => 0, Some(m) if src_masks.contains(m) => 1, Some(_) => 2 }).collect();
            out.drop_sites = arena::with_system(|| sites.clone());
            if let Some((dd, sd, sm)) = &before {
                let cloned: Vec<u64> = comp::with_ledger(|l| l.clone_trace[ctrace0.min(l.clone_trace.len())..].to_vec()).unwrap_or_default();
                let cs: Vec<u8> = cloned.iter().map(|x| clone_site(dd, sd, sm.get(x).copied())).collect();
                out.clone_sites = arena::with_system(|| cs.clone());
            }
        }
        drop(before);
        let c1 = comp::calls();
        for i in 0..NCB {
            out.calls[i] = c1[i] - c0[i];
        }
        match &r {
            Err(p) => {
                if p.downcast_ref::<comp::InjectedPanic>().is_some() {
                    out.reached_caller = true;
                } else {
                    let msg = util::take_last_panic();
                    if inject.is_some() && out.fired {
                        // a different panic surfaced instead of the injected one
                        notes.push(format!("operation panicked with a different payload: {}", msg));
                        out.reached_caller = true;
                    } else {
                        fails.push(FaultFail { key: key("unexpected-panic"), detail: msg });
                    }
                }
            }
            Ok(()) => {
                if inject.map_or(false, |(c, _)| !c.is_error_return()) && out.fired {
                    fails.push(FaultFail { key: key("panic-swallowed"), detail: "the injected panic did not reach the caller".into() });
                }
            }
        }
        drop(r);
        // ---- aftermath on every world involved
        let issued: Vec<Id> = ex.m.issued.clone();
        let exr: &mut Exec = &mut ex;
        let mut worlds: Vec<&mut W> = vec![&mut exr.w];
        if let Some(a) = exr.aux.as_mut() {
            worlds.push(a);
        }
        for w in extra.iter_mut() {
            worlds.push(w);
        }
        for (wi, w) in worlds.into_iter().enumerate() {
            let ar = catch_unwind(AssertUnwindSafe(|| match aftermath {
                0 => {}
                1 => {
                    let _ = snapshot(w);
                }
                2 => w.clear(),
                3 => {
                    let ids: Vec<Id> = snapshot(w).iter().map(|r| r.0).collect();
                    for id in ids.into_iter().chain(issued.iter().copied()) {
                        w.remove(mkid(id));
                    }
                }
                4 => {
                    // per-entity follow-ups through every identifier the caller still holds: overwrite / add
                    for id in issued.iter().copied() {
                        if let Some(mut e) = w.entry(mkid(id)) {
                            e.add(B::make(970));
                        }
                        if let Some(mut e) = w.entry(mkid(id)) {
                            e.add(A::make(971));
                        }
                    }
                    let _ = snapshot(w);
                }
                _ => {
                    for id in issued.iter().copied() {
                        if let Some(mut e) = w.entry(mkid(id)) {
                            e.remove::<A, _>();
                        }
                        if let Some(mut e) = w.entry(mkid(id)) {
                            let _ = e.query(Query::<Views!(Option<&O>, Option<&mut B>)>::new()).map(|result!(o, b)| {
                                if let Some(o) = o {
                                    o.read();
                                }
                                if let Some(b) = b {
                                    b.read();
                                }
                            });
                        }
                    }
                    let _ = snapshot(w);
                }
            }));
            if ar.is_err() {
                notes.push(format!("aftermath {} on world {} panicked: {}", aftermath, wi, util::take_last_panic()));
            }
        }
        // ---- the worlds can still be dropped
        let dr = catch_unwind(AssertUnwindSafe(|| {
            let Exec { w, aux, m, maux, twin, .. } = ManuallyDrop::into_inner(ex);
            drop(w);
            drop(aux);
            drop(twin);
            drop((m, maux));
            drop(ManuallyDrop::into_inner(extra));
            drop(ManuallyDrop::into_inner(prep));
        }));
        if dr.is_err() {
            fails.push(FaultFail { key: key("world-drop-panicked"), detail: util::take_last_panic() });
        }
    }));
    if r.is_err() {
        fails.push(FaultFail { key: key("harness-panicked"), detail: util::take_last_panic() });
    }
    // ---- judge
    let errs: Vec<TokErr> = comp::with_ledger(|l| l.errors.clone()).unwrap_or_default();
    for e in &errs {
        match e {
            TokErr::DoubleDrop { .. } | TokErr::ZstUnderflow { .. } => fails.push(FaultFail { key: key("double-drop"), detail: format!("{:?} (aftermath {})", e, aftermath) }),
            TokErr::DropUnknown { .. } => fails.push(FaultFail { key: key("drop-of-invalid-value"), detail: format!("{:?} (aftermath {})", e, aftermath) }),
            _ => fails.push(FaultFail { key: key("invalid-value-touched"), detail: format!("{:?} (aftermath {})", e, aftermath) }),
        }
    }
    let fails_sys: Vec<FaultFail> = arena::with_system(|| fails.iter().map(|f| FaultFail { key: f.key.as_str().to_owned(), detail: f.detail.as_str().to_owned() }).collect());
    let notes_sys: Vec<String> = arena::with_system(|| notes.iter().map(|s| s.as_str().to_owned()).collect());
    drop(fails);
    drop(notes);
    drop(errs);
    drop(comp::ledger_end());
    let rep = arena::end();
    out.fails = fails_sys;
    out.notes = notes_sys;
    if !rep.errors.is_empty() {
        out.fails.push(FaultFail { key: key("allocator-misuse"), detail: format!("{} (aftermath {})", rep.describe(), aftermath) });
    }
    out.leaked_blocks = rep.leaked_blocks;
    if std::env::var("FAULT_VERBOSE").is_ok() {
        println!("arena: {} allocations, {}", rep.total_allocs, rep.describe());
    }
    out
}

#[derive(Clone, Debug)]
struct Job {
    base: usize,
    fop: usize,
}

fn c17_jobs(tier: &str) -> (Vec<Vec<u8>>, Vec<FOp>, Vec<Job>, usize) {
    let depth = if tier == "quick" { 2 } else { 3 };
    let mut base_list = bases(depth);
    base_list.extend(extra_bases());
    let fops = all_fops();
    let mut jobs = Vec::new();
    for b in 0..base_list.len() {
        for f in 0..fops.len() {
            jobs.push(Job { base: b, fop: f });
        }
    }
    (base_list, fops, jobs, depth)
}

/// Worker process: handles jobs `i ≡ shard (mod nshards)`, one line of output per finished job.
/// `resume = (job, cb, k, aftermath)`: skip all earlier jobs and, inside that job, every case up to and
/// including the given one (the supervisor passes the case that crashed the previous worker).
fn worker_c17(tier: &str, shard: usize, nshards: usize, resume: Option<(usize, usize, u64, u8)>) -> i32 {
    let pool = rayon::ThreadPoolBuilder::new().num_threads(1).build().unwrap();
    pool.install(|| {
        arena::init_thread(0);
        let ops = base_alphabet();
        let (base_list, fops, jobs, _) = c17_jobs(tier);
        let mut i = shard;
        while i < jobs.len() {
            if let Some((rj, ..)) = resume {
                if i < rj {
                    i += nshards;
                    continue;
                }
            }
            let j = &jobs[i];
            let (base, fop) = (&base_list[j.base], fops[j.fop]);
            let skip_until = resume.filter(|r| r.0 == i).map(|r| (r.1, r.2, r.3));
            util::set_crash_descriptor(&format!("engine=fault-c17 job={} cb=9 k=0 aftermath=0 phase=dry base={:?} fop={:?}", i, base, fop));
            let dry = run_fault(&ops, base, fop, None, 0);
            let mut executions = 1u64;
            if !dry.enabled {
                println!("JOB {{\"job\":{},\"enabled\":false,\"executions\":1,\"points\":0,\"per_cb\":[0,0,0,0,0,0,0,0,0],\"leaks\":0,\"notes\":0}}", i);
                i += nshards;
                continue;
            }
            let case_json = |inject: Option<(Cb, u64)>, aftermath: u8| {
                format!(
                    "{{\"engine\":\"fault-c17\",\"tier\":\"{}\",\"base\":{:?},\"fop\":\"{:?}\",\"fop_index\":{},\"inject\":{},\"aftermath\":{}}}",
                    tier, base, fop, j.fop, inject.map_or("null".to_string(), |(c, k)| format!("[{},{}]", c as usize, k)), aftermath
                )
            };
            if skip_until.is_none() {
                for f in &dry.fails {
                    println!("FAIL {} :: {} :: {}", f.key.replace(' ', "_"), f.detail.replace('\n', " "), case_json(None, 0));
                }
            }
            let (points, mut leaks, mut notes) = (0u64, 0u64, 0u64);
            let per_cb = [0u64; NCB];
            for cb in CB_ALL {
                let n = dry.calls[cb as usize];
                for k in 0..n {
                    // a point whose earlier aftermaths ran in a previous (aborted) worker was already counted there
                    let mut counted = skip_until.map_or(false, |(sc, sk, _)| (cb as usize, k) == (sc, sk));
                    for aftermath in 0..6u8 {
                        if let Some((sc, sk, sa)) = skip_until {
                            if (cb as usize, k, aftermath) <= (sc, sk, sa) {
                                continue;
                            }
                        }
                        let site: Option<u8> = if cb == Cb::Drop && matches!(fop, FOp::CloneFrom(_)) { Some(dry.drop_sites.get(k as usize).copied().unwrap_or(0)) } else if cb == Cb::Clone && matches!(fop, FOp::CloneFrom(_)) { Some(dry.clone_sites.get(k as usize).copied().unwrap_or(5)) } else { None };
                        if !counted {
                            counted = true;
                            // reported immediately so that a later abort of this worker does not lose the count
                            println!("PT {} {} {} {}", i, cb as usize, executions, site.map_or(9, |x| x));
                            executions = 0;
                        }
                        util::set_crash_descriptor(&format!("engine=fault-c17 job={} cb={} k={} aftermath={} site={} base={:?} fop={:?}", i, cb as usize, k, aftermath, site.map_or(9, |x| x), base, fop));
                        let o = run_fault_at(&ops, base, fop, Some((cb, k)), aftermath, site);
                        executions += 1;
                        leaks += (o.leaked_blocks > 0) as u64;
                        notes += o.notes.len() as u64;
                        for f in &o.fails {
                            println!("FAIL {} :: {} :: {}", f.key.replace(' ', "_"), f.detail.replace('\n', " "), case_json(Some((cb, k)), aftermath));
                        }
                    }
                }
            }
            println!("JOB {{\"job\":{},\"enabled\":true,\"executions\":{},\"points\":{},\"per_cb\":{:?},\"leaks\":{},\"notes\":{}}}", i, executions, points, per_cb, leaks, notes);
            i += nshards;
        }
    });
    0
}

fn main_c17(tier: &str, threads: usize, evidence: Option<&str>, replay_dir: &str, seed: i64, prop: &str) -> i32 {
    use std::io::{BufRead, BufReader};
    use std::process::{Command, Stdio};
    let t0 = Instant::now();
    let ops = base_alphabet();
    let pool = rayon::ThreadPoolBuilder::new().num_threads(1).build().unwrap();
    let (base_list, fops, jobs, depth) = pool.install(|| {
        arena::init_thread(0);
        c17_jobs(tier)
    });
    println!("config c17: {} bases (depth {}), {} operations, {} (base, op) jobs", base_list.len(), depth, fops.len(), jobs.len());
    let exe = std::env::current_exe().unwrap();
    // (key, detail, case json, count)
    let found: std::sync::Mutex<Vec<(String, String, String, u64)>> = std::sync::Mutex::new(Vec::new());
    let totals: std::sync::Mutex<(u64, u64, u64, u64, u64, [u64; NCB], BTreeMap<&'static str, u64>, u64)> = std::sync::Mutex::new((0, 0, 0, 0, 0, [0; NCB], BTreeMap::new(), 0));
    let machinery: std::sync::Mutex<Vec<String>> = std::sync::Mutex::new(Vec::new());
    std::thread::scope(|sc| {
        for t in 0..threads {
            let (exe, found, totals, machinery, fops, jobs, base_list) = (&exe, &found, &totals, &machinery, &fops, &jobs, &base_list);
            sc.spawn(move || {
                let mut resume: Option<(usize, usize, u64, u8)> = None;
                let mut restarts = 0;
                loop {
                    let mut cmd = Command::new(exe);
                    cmd.args(["--mode", "c17-worker", "--tier", tier, "--shard", &format!("{}/{}", t, threads)]);
                    if let Some((j, c, k, a)) = resume {
                        cmd.args(["--resume", &format!("{},{},{},{}", j, c, k, a)]);
                    }
                    let mut child = cmd.stdout(Stdio::piped()).stderr(Stdio::null()).spawn().expect("spawn worker");
                    let rd = BufReader::new(child.stdout.take().unwrap());
                    let mut crashed: Option<String> = None;
                    for line in rd.lines() {
                        let Ok(line) = line else { break };
                        if let Some(rest) = line.strip_prefix("JOB ") {
                            let j: serde_json::Value = serde_json::from_str(rest).unwrap();
                            let mut tt = totals.lock().unwrap();
                            tt.0 += j["executions"].as_u64().unwrap();
                            if j["enabled"].as_bool().unwrap() {
                                tt.1 += 1;
                                tt.2 += j["points"].as_u64().unwrap();
                                tt.3 += j["leaks"].as_u64().unwrap();
                                tt.4 += j["notes"].as_u64().unwrap();
                                for c in 0..NCB {
                                    tt.5[c] += j["per_cb"][c].as_u64().unwrap();
                                }
                                let kind = fops[jobs[j["job"].as_u64().unwrap() as usize].fop].kind();
                                *tt.6.entry(kind).or_default() += j["points"].as_u64().unwrap();
                            }
                        } else if let Some(rest) = line.strip_prefix("PT ") {
                            let v: Vec<u64> = rest.split_whitespace().filter_map(|x| x.parse().ok()).collect();
                            if v.len() >= 3 {
                                let mut tt = totals.lock().unwrap();
                                if let Some(name) = v.get(3).and_then(|&x| SITE_LABELS.get(x as usize)) {
                                    *tt.6.entry(name).or_default() += 1;
                                }
                                tt.2 += 1;
                                tt.5[v[1] as usize] += 1;
                                tt.0 += v[2];
                                let kind = fops[jobs[v[0] as usize].fop].kind();
                                *tt.6.entry(kind).or_default() += 1;
                            }
                        } else if let Some(rest) = line.strip_prefix("FAIL ") {
                            let parts: Vec<&str> = rest.splitn(3, " :: ").collect();
                            // keys of the form "C05:<key>" belong to C05 (error returns), everything else to C17
                            let (fprop, k0) = match parts[0].split_once(':') {
                                Some((p, k)) if p.len() == 3 && p.starts_with('C') => (p, k),
                                _ => ("C17", parts[0]),
                            };
                            if parts.len() == 3 && fprop == prop {
                                let parts = [k0, parts[1], parts[2]];
                                let mut f = found.lock().unwrap();
                                if let Some(x) = f.iter_mut().find(|x| x.0 == parts[0]) {
                                    x.3 += 1;
                                } else {
                                    f.push((parts[0].to_string(), parts[1].to_string(), parts[2].to_string(), 1));
                                }
                            }
                        } else if line.starts_with("CRASH ") {
                            crashed = Some(line);
                        }
                    }
                    let status = child.wait().ok();
                    match crashed {
                        None => {
                            if status.map_or(true, |s| !s.success()) {
                                machinery.lock().unwrap().push(format!("worker {} exited with {:?} without a crash report", t, status));
                            }
                            break;
                        }
                        Some(line) => {
                            // CRASH signal=NN desc=engine=fault-c17 job=J cb=C k=K aftermath=A ... last_panic=...
                            let get = |name: &str| -> Option<u64> { line.split_whitespace().find_map(|w| w.strip_prefix(name)).and_then(|v| v.parse().ok()) };
                            let (Some(j), Some(c), Some(k), Some(a)) = (get("job="), get("cb="), get("k="), get("aftermath=")) else {
                                machinery.lock().unwrap().push(format!("unparseable crash line: {}", line));
                                break;
                            };
                            let job = &jobs[j as usize];
                            let fop = fops[job.fop];
                            let cbname = if c < NCB as u64 { format!("{:?}", CB_ALL[c as usize]) } else { "none".to_string() };
                            let site_txt = match get("site=") { Some(x) if (x as usize) < SITE_NAMES.len() => format!("_site={}", SITE_NAMES[x as usize]), _ => String::new() };
                            let key = format!("process-abort_op={}_cb={}{}", fop.kind(), cbname, site_txt);
                            let detail = line.split("last_panic=").nth(1).unwrap_or("").to_string();
                            let case = format!(
                                "{{\"engine\":\"fault-c17\",\"tier\":\"{}\",\"base\":{:?},\"fop\":\"{:?}\",\"fop_index\":{},\"inject\":{},\"aftermath\":{}}}",
                                tier, base_list[job.base], fop, job.fop, if c < NCB as u64 { format!("[{},{}]", c, k) } else { "null".into() }, a
                            );
                            let abort_owner = if c < NCB as u64 && CB_ALL[c as usize].is_error_return() { "C05" } else { "C17" };
                            if abort_owner == prop {
                                let mut f = found.lock().unwrap();
                                if let Some(x) = f.iter_mut().find(|x| x.0 == key) {
                                    x.3 += 1;
                                } else {
                                    f.push((key, detail, case, 1));
                                }
                            }
                            {
                                let mut tt = totals.lock().unwrap();
                                tt.0 += 1;
                                tt.7 += 1;
                            }
                            if c >= NCB as u64 {
                                // crashed in the unfaulted dry run: skip the whole job
                                resume = Some((j as usize, NCB, u64::MAX, 5));
                            } else {
                                resume = Some((j as usize, c as usize, k, a as u8));
                            }
                            restarts += 1;
                            if restarts > 20000 {
                                machinery.lock().unwrap().push("too many worker restarts".into());
                                break;
                            }
                        }
                    }
                }
            });
        }
    });
    let found = found.into_inner().unwrap();
    let tt = totals.into_inner().unwrap();
    let machinery = machinery.into_inner().unwrap();
    let dir = format!("{}/{}", replay_dir, prop);
    let _ = std::fs::create_dir_all(&dir);
    let mut found_json = Vec::new();
    for (key, detail, case, count) in &found {
        let fname: String = key.chars().map(|c| if c.is_ascii_alphanumeric() || c == '-' || c == '=' { c } else { '_' }).collect();
        let path = format!("{}/{}.json", dir, fname);
        let mut j: serde_json::Value = serde_json::from_str(case).unwrap_or(serde_json::json!({"raw": case}));
        j["property"] = prop.into();
        j["key"] = key.clone().into();
        j["detail"] = detail.clone().into();
        j["occurrences"] = (*count).into();
        if let Some(b) = j["base"].as_array() {
            let names: Vec<String> = b.iter().map(|x| format!("{:?}", ops[x.as_u64().unwrap() as usize])).collect();
            j["base_ops"] = names.into();
        }
        std::fs::write(&path, serde_json::to_string_pretty(&j).unwrap()).unwrap();
        println!("FOUND property={} key={} replay={} count={} :: {}", prop, key, path, count, detail);
        found_json.push(serde_json::json!({"key": key, "replay": path, "count": count}));
    }
    let cbs: BTreeMap<String, u64> = CB_ALL.iter().map(|c| (format!("{:?}", c), tt.5[*c as usize])).collect();
    let ev = serde_json::json!({
        "property_id": prop, "tier": tier, "seed": seed, "level": "fault_enumeration",
        "coverage": {
            "evaluations": tt.0, "distinct_nontrivial": tt.2,
            "rule": "one case = (base world, operation, callback kind, call index k); callback kinds SerializeErr / DeserializeErr make the k-th Serialize / Deserialize call of a component return an error instead of panicking (judged for C05, not C17); enumerated completely: every k below the number of calls of that kind observed in the unfaulted run of that operation on that base; each case is run with 6 aftermaths (drop; read everything then drop; clear then drop; remove every identifier then drop; Entry::add on every identifier then drop; Entry::remove + entry query on every identifier then drop); distinct_nontrivial counts cases (injection points), evaluations counts executions",
            "samples": found.iter().take(3).map(|f| serde_json::json!({"key": f.0, "case": serde_json::from_str::<serde_json::Value>(&f.2).unwrap_or_default()})).chain(std::iter::once(serde_json::json!({"base": base_list[base_list.len() / 2], "op": format!("{:?}", fops[5]), "note": "every callback index of every kind, 6 aftermaths each"}))).collect::<Vec<_>>(),
            "bases": base_list.len(), "base_depth": depth, "operations": fops.len(), "enabled_base_op_pairs": tt.1,
            "injection_points_per_callback_kind": cbs, "injection_points_per_operation": tt.6,
            "executions_that_leaked_memory_allowed": tt.3, "later_safe_panics_noted": tt.4, "executions_ending_in_process_abort": tt.7,
            "exhaustive": machinery.is_empty(), "found": found_json,
        },
        "assumptions": ["second panics are never armed", "leaks after a panic are allowed by the property", "rayon operations run on a 1-thread pool per worker process so user callbacks are counted deterministically",
                        "an execution that aborts the process (std's unsafe-precondition checks) is attributed to the armed case; the worker is restarted after that case"],
        "wall_s": t0.elapsed().as_secs_f64(), "violations": found.len(),
    });
    if let Some(p) = evidence {
        std::fs::write(p, serde_json::to_string_pretty(&ev).unwrap()).unwrap();
    }
    println!("config c17 done: {} executions, {} injection points, {} leaked (allowed), {} later-panic notes, {} aborts [{:.1}s]", tt.0, tt.2, tt.3, tt.4, tt.7, t0.elapsed().as_secs_f64());
    for m in &machinery {
        println!("MACHINERY-ERROR {}", m);
    }
    if !machinery.is_empty() {
        return 2;
    }
    if found.is_empty() { 0 } else { 1 }
}

fn replay_c17(path: &str) -> i32 {
    let j: serde_json::Value = serde_json::from_str(&std::fs::read_to_string(path).unwrap()).unwrap();
    let base: Vec<u8> = j["base"].as_array().unwrap().iter().map(|x| x.as_u64().unwrap() as u8).collect();
    let fop = all_fops()[j["fop_index"].as_u64().unwrap() as usize];
    let inject = j["inject"].as_array().map(|a| (CB_ALL[a[0].as_u64().unwrap() as usize], a[1].as_u64().unwrap()));
    let aftermath = j["aftermath"].as_u64().unwrap_or(0) as u8;
    let ops = base_alphabet();
    println!("base: {:?}", base.iter().map(|&i| format!("{:?}", ops[i as usize])).collect::<Vec<_>>());
    println!("operation: {:?}; inject panic at {:?}; aftermath {}", fop, inject, aftermath);
    let pool = rayon::ThreadPoolBuilder::new().num_threads(1).build().unwrap();
    let out = pool.install(|| {
        arena::init_thread(0);
        let site = match inject {
            Some((Cb::Drop, k)) if matches!(fop, FOp::CloneFrom(_)) => Some(run_fault(&ops, &base, fop, None, 0).drop_sites.get(k as usize).copied().unwrap_or(0)),
            Some((Cb::Clone, k)) if matches!(fop, FOp::CloneFrom(_)) => Some(run_fault(&ops, &base, fop, None, 0).clone_sites.get(k as usize).copied().unwrap_or(5)),
            _ => None,
        };
        run_fault_at(&ops, &base, fop, inject, aftermath, site)
    });
    println!("fired: {}, reached caller: {}, calls during op: {:?}, leaked blocks: {}", out.fired, out.reached_caller, out.calls, out.leaked_blocks);
    for n in &out.notes {
        println!("note: {}", n);
    }
    for f in &out.fails {
        println!("VIOLATION property={} replay={} :: {} :: {}", j["property"].as_str().unwrap_or("C17"), path, f.key, f.detail);
    }
    if out.fails.is_empty() { println!("no violation"); 0 } else { 1 }
}

fn main() {
    let args: Vec<String> = std::env::args().collect();
    let mut mode = "c17".to_string();
    let mut tier = "quick".to_string();
    let mut threads = 16usize;
    let mut evidence: Option<String> = None;
    let mut replay_dir = "/verif/replays".to_string();
    let mut replay: Option<String> = None;
    let mut prop = "C11".to_string();
    let mut shard = (0usize, 1usize);
    let mut resume: Option<(usize, usize, u64, u8)> = None;
    let mut i = 1;
    while i < args.len() {
        match args[i].as_str() {
            "--mode" => { mode = args[i + 1].clone(); i += 1 }
            "--tier" => { tier = args[i + 1].clone(); i += 1 }
            "--threads" => { threads = args[i + 1].parse().unwrap(); i += 1 }
            "--evidence" => { evidence = Some(args[i + 1].clone()); i += 1 }
            "--replay-dir" => { replay_dir = args[i + 1].clone(); i += 1 }
            "--replay" => { replay = Some(args[i + 1].clone()); i += 1 }
            "--prop" => { prop = args[i + 1].clone(); i += 1 }
            "--shard" => { let (a, b) = args[i + 1].split_once('/').unwrap(); shard = (a.parse().unwrap(), b.parse().unwrap()); i += 1 }
            "--resume" => { let v: Vec<u64> = args[i + 1].split(',').map(|x| x.parse().unwrap()).collect(); resume = Some((v[0] as usize, v[1] as usize, v[2], v[3] as u8)); i += 1 }
            x => panic!("unknown argument {x}"),
        }
        i += 1;
    }
    util::install_crash_handler();
    // the executions of this engine are tiny: a worker that announces nothing for 20 s is stuck
    if std::env::var("VERIF_HANG_SECS").is_err() {
        util::HANG_SECS.store(20, std::sync::atomic::Ordering::Relaxed);
    }
    if std::env::var("FAULT_VERBOSE").is_err() {
        util::install_quiet_panic_hook();
    }
    let seed: i64 = std::env::var("VERIF_SEED").ok().and_then(|s| s.parse().ok()).unwrap_or(0);
    if let Some(p) = replay {
        let text = std::fs::read_to_string(&p).unwrap();
        if text.contains("fault-c11-shifted") {
            // {"case": "world=W human=H k=Some(K)"}: one execution of src/shifted.rs, no explorer
            let j: serde_json::Value = serde_json::from_str(&text).unwrap();
            let case = j["case"].as_str().unwrap_or("").to_string();
            let get = |name: &str| case.split_whitespace().find_map(|w| w.strip_prefix(name)).unwrap_or("").to_string();
            let k: u64 = get("k=").trim_start_matches("Some(").trim_end_matches(')').parse().unwrap_or(0);
            util::install_crash_handler();
            let rc = shifted::worker(Some((get("world=").parse().unwrap_or(0), get("human=") == "true", k)));
            std::process::exit(rc);
        }
        if text.contains("fault-c11") {
            std::process::exit(c11::replay(&p));
        }
        std::process::exit(replay_c17(&p));
    }
    let rc = match mode.as_str() {
        "c17-worker" => worker_c17(&tier, shard.0, shard.1, resume),
        "c11-shifted" => shifted::worker(std::env::var("SHIFTED_ONLY").ok().and_then(|v| { let p: Vec<&str> = v.split(',').collect(); Some((p.first()?.parse().ok()?, *p.get(1)? == "true", p.get(2)?.parse().ok()?)) })),
        "c11-worker" => c11::worker_c11(&tier, shard.0, shard.1, resume.map(|r| r.0)),
        "c17" => main_c17(&tier, threads, evidence.as_deref(), &replay_dir, seed, if prop == "C11" { "C17" } else { &prop }),
        _ => c11::main_c11(&tier, threads, evidence.as_deref(), &replay_dir, seed, &prop),
    };
    std::process::exit(rc);
}
