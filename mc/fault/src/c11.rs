//! C11: every single (thorough: also double) edit of every base serialization, in three encodings
//! (compact tokens = column-wise, human-readable tokens = row-wise, JSON text = row-wise).
//! Oracle: the call returns `Err` (no double drop, no allocator misuse) or `Ok(world)` with a fully
//! valid world (C13 audit, identifier resolution, survives every continuation, drops cleanly).

use crate::{base_alphabet, bases, build};
use mccore::comp::{self, TokErr};
use mccore::s4::*;
use mccore::{arena, util};
use serde_assert::{Token, Tokens};
use std::collections::{BTreeMap, BTreeSet};
use std::mem::ManuallyDrop;
use std::panic::{catch_unwind, AssertUnwindSafe};
use std::time::Instant;

#[derive(Clone, Copy, Debug, PartialEq, Eq, PartialOrd, Ord)]
pub enum Enc {
    Compact,
    Human,
    Json,
    /// the same three with every struct (`Identifier`, `Allocator`) written as a sequence, the form used by
    /// formats such as bincode or postcard (serde's `visit_seq` branch of the struct visitors)
    CompactSeq,
    HumanSeq,
    JsonSeq,
}

impl Enc {
    fn human(self) -> bool {
        matches!(self, Enc::Human | Enc::HumanSeq)
    }
    fn is_json(self) -> bool {
        matches!(self, Enc::Json | Enc::JsonSeq)
    }
}

/// Structs as sequences; returns the new stream and, per old position, the new position (None for dropped tokens).
pub fn structs_as_seqs(tokens: &[Token]) -> (Vec<Token>, Vec<Option<usize>>) {
    let mut out = Vec::with_capacity(tokens.len());
    let mut map = Vec::with_capacity(tokens.len());
    for t in tokens {
        match t {
            Token::Struct { len, .. } => {
                map.push(Some(out.len()));
                out.push(Token::Seq { len: Some(*len) });
            }
            Token::StructEnd => {
                map.push(Some(out.len()));
                out.push(Token::SeqEnd);
            }
            Token::Field(_) => map.push(None),
            other => {
                map.push(Some(out.len()));
                out.push(other.clone());
            }
        }
    }
    (out, map)
}

/// JSON: objects of the two struct types become arrays in field order.
pub fn json_structs_as_arrays(v: &serde_json::Value) -> serde_json::Value {
    use serde_json::Value;
    match v {
        Value::Array(a) => Value::Array(a.iter().map(json_structs_as_arrays).collect()),
        Value::Object(o) => {
            let order: &[&str] = if o.contains_key("index") { &["index", "generation"] } else { &["length", "free"] };
            Value::Array(order.iter().filter_map(|k| o.get(*k)).map(json_structs_as_arrays).collect())
        }
        other => other.clone(),
    }
}

/// One edit of a token stream, identified by (kind, position, parameter).
#[derive(Clone, Copy, Debug, PartialEq, Eq)]
pub enum Edit {
    Delete(usize),
    Duplicate(usize),
    Swap(usize, usize),
    Alter(usize, u8),
    /// duplicate the whole group (sequence / tuple / struct) opening at this position and add one to the length the
    /// enclosing sequence or tuple declares: a structurally valid stream with one element repeated
    DupGroup(usize),
    /// delete the whole group opening at this position and subtract one from the enclosing declared length
    DelGroup(usize),
    /// JSON only: truncate the text to this many bytes
    Truncate(usize),
    /// JSON only: k-th structural edit of the value tree
    Tree(usize),
}

fn level_of(tokens: &[Token]) -> Vec<i32> {
    let mut lv = Vec::with_capacity(tokens.len());
    let mut d = 0i32;
    for t in tokens {
        match t {
            Token::SeqEnd | Token::TupleEnd | Token::StructEnd | Token::TupleStructEnd | Token::MapEnd => {
                d -= 1;
                lv.push(d);
            }
            Token::Seq { .. } | Token::Tuple { .. } | Token::Struct { .. } | Token::TupleStruct { .. } | Token::Map { .. } => {
                lv.push(d);
                d += 1;
            }
            _ => lv.push(d),
        }
    }
    lv
}

const NAMES: [&str; 6] = ["index", "generation", "length", "free", "bogus", "Identifier"];

/// All alterations of one token (None when `variant` is past the last one).
fn alter(t: &Token, variant: u8, stream_len: usize) -> Option<Token> {
    // declared lengths stay bounded by the input size (the property's own bound), so no huge values for
    // integers that may be lengths; identifiers and generations additionally get a large value below
    let ints = |v: u64| -> Vec<u64> { vec![0, 1, v.saturating_sub(1), v.wrapping_add(1), v.wrapping_add(stream_len as u64), v ^ 2] };
    let v = variant as usize;
    match t {
        Token::U8(x) => {
            // every single-bit flip, then 0 and 255
            if v < 8 { Some(Token::U8(x ^ (1 << v))) } else if v == 8 { Some(Token::U8(0)) } else if v == 9 { Some(Token::U8(255)) } else if v == 10 { Some(Token::U64(*x as u64)) } else { None }
        }
        Token::U64(_) if v == 100 => Some(Token::U64(u64::MAX)),
        Token::U64(_) if v == 101 => Some(Token::U64(u64::MAX - 1)),
        Token::U64(x) => {
            let c = ints(*x);
            if v < c.len() { Some(Token::U64(c[v])) } else if v == c.len() { Some(Token::U32(*x as u32)) } else if v == c.len() + 1 { Some(Token::Unit) } else { None }
        }
        Token::U32(x) => {
            let c = ints(*x as u64);
            if v < c.len() { Some(Token::U32(c[v] as u32)) } else if v == c.len() { Some(Token::Unit) } else if v == c.len() + 1 { Some(Token::Str("x".into())) } else if v == c.len() + 2 { Some(Token::U64(*x as u64)) } else { None }
        }
        Token::Unit => match v {
            0 => Some(Token::U32(0)),
            1 => Some(Token::Bool(true)),
            2 => Some(Token::None),
            _ => None,
        },
        Token::Seq { len } => match (v, len) {
            (0, Some(n)) => Some(Token::Seq { len: Some(n + 1) }),
            (1, Some(n)) => Some(Token::Seq { len: Some(n.saturating_sub(1)) }),
            (2, _) => Some(Token::Seq { len: None }),
            (3, _) => Some(Token::Seq { len: Some(0) }),
            (4, _) => Some(Token::Tuple { len: len.unwrap_or(0) }),
            (5, Some(n)) => Some(Token::Seq { len: Some(n + stream_len) }),
            _ => None,
        },
        Token::Tuple { len } => match v {
            0 => Some(Token::Tuple { len: len + 1 }),
            1 => Some(Token::Tuple { len: len.saturating_sub(1) }),
            2 => Some(Token::Seq { len: Some(*len) }),
            3 => Some(Token::Tuple { len: 0 }),
            _ => None,
        },
        Token::Struct { name, len } => match v {
            0 => Some(Token::Struct { name, len: len + 1 }),
            1 => Some(Token::Struct { name, len: len.saturating_sub(1) }),
            2 => Some(Token::Struct { name: "Bogus", len: *len }),
            3 => Some(Token::Map { len: Some(*len) }),
            4 => Some(Token::Seq { len: Some(*len) }),
            _ => None,
        },
        Token::Field(name) => {
            if v < NAMES.len() { if NAMES[v] == *name { Some(Token::Str(name.to_string())) } else { Some(Token::Field(NAMES[v])) } } else { None }
        }
        Token::NewtypeStruct { .. } => match v {
            0 => Some(Token::NewtypeStruct { name: "Bogus" }),
            1 => Some(Token::Tuple { len: 1 }),
            _ => None,
        },
        Token::SeqEnd => if v == 0 { Some(Token::TupleEnd) } else { None },
        Token::TupleEnd => if v == 0 { Some(Token::SeqEnd) } else if v == 1 { Some(Token::StructEnd) } else { None },
        Token::StructEnd => if v == 0 { Some(Token::TupleEnd) } else { None },
        _ => None,
    }
}

pub fn apply_edit(tokens: &[Token], e: Edit) -> Option<Vec<Token>> {
    let mut t = tokens.to_vec();
    match e {
        Edit::Delete(i) => {
            t.remove(i);
        }
        Edit::Duplicate(i) => {
            let x = t[i].clone();
            t.insert(i, x);
        }
        Edit::Swap(i, j) => t.swap(i, j),
        Edit::Alter(i, v) => {
            t[i] = alter(&tokens[i], v, tokens.len())?;
        }
        Edit::DupGroup(i) | Edit::DelGroup(i) => {
            let lv = level_of(tokens);
            let is_open = |t: &Token| matches!(t, Token::Seq { .. } | Token::Tuple { .. } | Token::Struct { .. } | Token::TupleStruct { .. } | Token::Map { .. });
            if !is_open(&tokens[i]) {
                return None;
            }
            let end = (i + 1..tokens.len()).find(|j| lv[*j] == lv[i] && !is_open(&tokens[*j]))?;
            // enclosing group: the nearest opener before i one level up
            let parent = (0..i).rev().find(|j| lv[*j] == lv[i] - 1 && is_open(&tokens[*j]));
            let dup = matches!(e, Edit::DupGroup(_));
            if let Some(p) = parent {
                let bump = |n: usize| if dup { Some(n + 1) } else { n.checked_sub(1) };
                t[p] = match &tokens[p] {
                    Token::Seq { len: Some(n) } => Token::Seq { len: Some(bump(*n)?) },
                    Token::Tuple { len } => Token::Tuple { len: bump(*len)? },
                    other => other.clone(),
                };
            }
            if dup {
                let group: Vec<Token> = tokens[i..=end].to_vec();
                for (k, x) in group.into_iter().enumerate() {
                    t.insert(end + 1 + k, x);
                }
            } else {
                t.drain(i..=end);
            }
        }
        _ => return None,
    }
    Some(t)
}

pub fn single_edits(tokens: &[Token], all_swaps: bool) -> Vec<Edit> {
    let n = tokens.len();
    let lv = level_of(tokens);
    let mut v = Vec::new();
    for i in 0..n {
        v.push(Edit::Delete(i));
        v.push(Edit::Duplicate(i));
        if i > 0 && matches!(tokens[i], Token::Seq { .. } | Token::Tuple { .. } | Token::Struct { .. } | Token::TupleStruct { .. } | Token::Map { .. }) {
            v.push(Edit::DupGroup(i));
            v.push(Edit::DelGroup(i));
        }
        for j in i + 1..n {
            if all_swaps || lv[i] == lv[j] {
                // swapping two identical tokens changes nothing
                if format!("{:?}", tokens[i]) != format!("{:?}", tokens[j]) {
                    v.push(Edit::Swap(i, j));
                }
            }
        }
        let mut k = 0u8;
        while k < 100 && alter(&tokens[i], k, n).is_some() {
            v.push(Edit::Alter(i, k));
            k += 1;
        }
        // generations (never lengths) also get the extreme values: a generation of u64::MAX is a valid state
        if i > 0 && matches!(tokens[i - 1], Token::Field("generation")) && matches!(tokens[i], Token::U64(_)) {
            v.push(Edit::Alter(i, 100));
            v.push(Edit::Alter(i, 101));
        }
    }
    v
}

// ---------------------------------------------------------------------------------------------
// JSON value-tree edits

fn tree_edits(v: &serde_json::Value, out: &mut Vec<serde_json::Value>, root: &serde_json::Value, path: &mut Vec<PathSeg>) {
    use serde_json::Value;
    let put = |out: &mut Vec<Value>, path: &Vec<PathSeg>, newv: Option<Value>, op: TreeOp| {
        let mut r = root.clone();
        if edit_at(&mut r, path, newv, op) {
            out.push(r);
        }
    };
    match v {
        Value::Number(n) => {
            let x = n.as_u64().unwrap_or(0);
            for c in [0, 1, x.saturating_sub(1), x + 1, x + 64] {
                if c != x {
                    put(out, path, Some(Value::from(c)), TreeOp::Replace);
                }
            }
            put(out, path, Some(Value::Null), TreeOp::Replace);
            put(out, path, Some(Value::from("7")), TreeOp::Replace);
            put(out, path, Some(Value::from(-1)), TreeOp::Replace);
        }
        Value::Null => {
            put(out, path, Some(Value::from(0)), TreeOp::Replace);
            put(out, path, Some(Value::Bool(true)), TreeOp::Replace);
        }
        Value::Array(a) => {
            for i in 0..a.len() {
                put(out, path, None, TreeOp::DeleteChild(i));
                put(out, path, None, TreeOp::DupChild(i));
                for j in i + 1..a.len() {
                    if a[i] != a[j] {
                        put(out, path, None, TreeOp::SwapChildren(i, j));
                    }
                }
            }
            put(out, path, Some(Value::Null), TreeOp::Replace);
            put(out, path, Some(Value::Object(Default::default())), TreeOp::Replace);
            for (i, c) in a.iter().enumerate() {
                path.push(PathSeg::Idx(i));
                tree_edits(c, out, root, path);
                path.pop();
            }
        }
        Value::Object(o) => {
            for k in o.keys() {
                put(out, path, None, TreeOp::DeleteKey(k.clone()));
                for nk in ["index", "generation", "length", "free", "bogus"] {
                    if nk != k {
                        put(out, path, None, TreeOp::RenameKey(k.clone(), nk.to_string()));
                    }
                }
            }
            put(out, path, Some(Value::Array(vec![])), TreeOp::Replace);
            for (k, c) in o.iter() {
                path.push(PathSeg::Key(k.clone()));
                tree_edits(c, out, root, path);
                path.pop();
            }
        }
        _ => {}
    }
}

#[derive(Clone, Debug)]
enum PathSeg {
    Idx(usize),
    Key(String),
}
enum TreeOp {
    Replace,
    DeleteChild(usize),
    DupChild(usize),
    SwapChildren(usize, usize),
    DeleteKey(String),
    RenameKey(String, String),
}

fn edit_at(root: &mut serde_json::Value, path: &[PathSeg], newv: Option<serde_json::Value>, op: TreeOp) -> bool {
    let mut cur = root;
    for seg in path {
        cur = match seg {
            PathSeg::Idx(i) => &mut cur[*i],
            PathSeg::Key(k) => &mut cur[k.as_str()],
        };
    }
    match op {
        TreeOp::Replace => *cur = newv.unwrap(),
        TreeOp::DeleteChild(i) => {
            cur.as_array_mut().unwrap().remove(i);
        }
        TreeOp::DupChild(i) => {
            let a = cur.as_array_mut().unwrap();
            let x = a[i].clone();
            a.insert(i, x);
        }
        TreeOp::SwapChildren(i, j) => cur.as_array_mut().unwrap().swap(i, j),
        TreeOp::DeleteKey(k) => {
            cur.as_object_mut().unwrap().remove(&k);
        }
        TreeOp::RenameKey(k, nk) => {
            let o = cur.as_object_mut().unwrap();
            if o.contains_key(&nk) {
                return false;
            }
            let v = o.remove(&k).unwrap();
            o.insert(nk, v);
        }
    }
    true
}

pub fn json_inputs(text: &str) -> Vec<String> {
    let mut v: Vec<String> = (0..text.len()).map(|n| text[..n].to_string()).collect();
    let root: serde_json::Value = serde_json::from_str(text).unwrap();
    let mut trees = Vec::new();
    tree_edits(&root, &mut trees, &root, &mut Vec::new());
    v.extend(trees.iter().map(|t| serde_json::to_string(t).unwrap()));
    // extreme generations (valid states): textual replacement of each "generation":<n>
    {
        let key = "\"generation\":";
        let mut from = 0;
        while let Some(p) = text[from..].find(key) {
            let at = from + p + key.len();
            let end = at + text[at..].find(|c: char| !c.is_ascii_digit()).unwrap_or(0);
            let mut s = text.to_string();
            s.replace_range(at..end, "18446744073709551615");
            v.push(s);
            from = end;
        }
    }
    // duplicate keys cannot be expressed as a Value: do it textually for every "index"/"generation"/"length"/"free"
    for key in ["\"index\":", "\"generation\":", "\"length\":", "\"free\":"] {
        let mut from = 0;
        while let Some(p) = text[from..].find(key) {
            let at = from + p;
            let mut s = text.to_string();
            s.insert_str(at, &format!("{}0,", key));
            v.push(s);
            from = at + key.len();
        }
    }
    v
}

// ---------------------------------------------------------------------------------------------
// Judging one input

pub struct Verdict {
    pub outcome: &'static str, // "err", "ok", "env"
    pub fails: Vec<(String, String)>,
    pub leaked_values_on_err: u64,
    pub ok_leak: u64,
    pub continuations: u64,
}

fn cont_alphabet() -> Vec<Op> {
    use Op::*;
    vec![
        Insert { mask: 5, rev: false },
        Insert { mask: 15, rev: true },
        Extend { mask: 1, n: 2, style: 0 },
        Remove(Tgt::Lo),
        Remove(Tgt::Hi),
        Clear,
        Add(Tgt::Lo, 1),
        RemoveComp(Tgt::Lo, 0),
        MutQ(0),
        Shrink,
        RtJson,
        RemoveStale,
        Insert { mask: 1, rev: false },
    ]
}

enum Input<'a> {
    Tok(&'a [Token], bool),
    Json(&'a str),
}

fn deserialize(input: &Input) -> std::result::Result<W, String> {
    match input {
        Input::Tok(t, human) => from_tokens(Tokens(t.to_vec()), *human),
        Input::Json(s) => serde_json::from_str::<W>(s).map_err(|e| e.to_string()),
    }
}

/// Builds the model of a freshly deserialized world from what the world itself reports.
fn model_of(w: &mut W) -> Model {
    let snap = snapshot(w);
    let d = w.verif_dump();
    let mut ents = BTreeMap::new();
    let mut issued = Vec::new();
    for (id, row) in snap_vals(&snap) {
        ents.insert(id, row);
        issued.push(id);
    }
    for (i, s) in d.slots.iter().enumerate() {
        if s.location.is_none() {
            issued.push((i, s.generation));
        }
        // earlier generations of a slot are stale identifiers (skipped near the wrap-around point, which is
        // out of scope: a generation of u64::MAX legitimately wraps to 0 on reuse)
        if s.generation > 0 && s.generation < u64::MAX / 2 {
            issued.push((i, s.generation - 1));
        }
    }
    issued.sort();
    issued.dedup();
    let (r0, r1) = read_res(w);
    Model { ents, issued, res: (r0.0, r1.0) }
}

fn judge(input: &Input, cont_depth: usize) -> Verdict {
    let mut v = Verdict { outcome: "err", fails: vec![], leaked_values_on_err: 0, ok_leak: 0, continuations: 0 };
    let conts = cont_alphabet();
    // the list of continuations: [] plus every sequence up to cont_depth
    let mut seqs: Vec<Vec<usize>> = vec![vec![]];
    let mut frontier: Vec<Vec<usize>> = vec![vec![]];
    for _ in 0..cont_depth {
        let mut next = Vec::new();
        for s in &frontier {
            for o in 0..conts.len() {
                let mut s2 = s.clone();
                s2.push(o);
                next.push(s2);
            }
        }
        seqs.extend(next.iter().cloned());
        frontier = next;
    }
    for (si, seq) in seqs.iter().enumerate() {
        arena::begin(0);
        comp::ledger_begin();
        let mut fails: Vec<(String, String)> = Vec::new();
        let mut outcome = "err";
        let mut stop = false;
        let mut ok_leak = 0u64;
        let r = catch_unwind(AssertUnwindSafe(|| {
            let res = catch_unwind(AssertUnwindSafe(|| deserialize(input)));
            match res {
                Err(p) => {
                    drop(p);
                    let msg = util::take_last_panic();
                    if msg.contains("serde_assert") || msg.contains("serde_json") {
                        outcome = "env";
                    } else {
                        fails.push(("deserialize-panicked".into(), msg));
                    }
                    stop = true;
                }
                Ok(Err(_e)) => {
                    outcome = "err";
                    stop = true;
                    let live = comp::with_ledger(|l| l.live_count()).unwrap_or(0);
                    v.leaked_values_on_err = live as u64;
                }
                Ok(Ok(w)) => {
                    outcome = "ok";
                    let mut w = ManuallyDrop::new(w);
                    let m = model_of(&mut w);
                    let mut ex = ManuallyDrop::new(Exec { w: ManuallyDrop::into_inner(w), aux: None, m, maux: None, class: None, twin: None, twin_kind: 0 });
                    let mut chk = Checker::default();
                    if seq.is_empty() {
                        // the world as returned
                        let mut owned = BTreeSet::new();
                        let mut z = 0i64;
                        ex.check_side(&mut chk, "deserialize", &mut owned, &mut z);
                        let live: BTreeSet<u64> = comp::with_ledger(|l| l.live_serials().into_iter().collect()).unwrap_or_default();
                        if !owned.is_subset(&live) {
                            chk.fail(Prop::C04, "returned-world-holds-dropped-values", format!("{:?}", owned.difference(&live).collect::<Vec<_>>()));
                        }
                        if !live.is_subset(&owned) {
                            ok_leak = live.difference(&owned).count() as u64;
                        }
                        ex.check_ledger_and_arena(&mut chk, "deserialize");
                    } else {
                        for (k, &o) in seq.iter().enumerate() {
                            let op = conts[o];
                            let step = ex.apply(&op, &mut chk);
                            if step == Step::Disabled {
                                break;
                            }
                            if k + 1 == seq.len() {
                                // values created but not owned by the world during deserialization are leaks of
                                // the deserializer, not of the continuation: only structural oracles here
                                let mut owned = BTreeSet::new();
                                let mut z = 0i64;
                                ex.check_side(&mut chk, op.kind(), &mut owned, &mut z);
                                ex.check_ledger_and_arena(&mut chk, op.kind());
                            }
                        }
                    }
                    for f in chk.fails {
                        // a world handed back by deserialization that later confuses identifiers also breaks C02
                        if f.prop == Prop::C02 {
                            fails.push((format!("C02:deserialized-world-confuses-identifiers ({})", f.key), f.detail.clone()));
                        }
                        // ... and one whose identifier index and storage disagree (two tables for one component set, a row
                        // without a slot, ...) breaks C13, whose histories include deserialization
                        if f.prop == Prop::C13 {
                            fails.push((format!("C13:deserialized-world-index-and-storage-disagree ({})", f.key), f.detail.clone()));
                        }
                        fails.push((format!("returned-world-invalid ({})", f.key), f.detail));
                    }
                    let dr = catch_unwind(AssertUnwindSafe(|| drop(ManuallyDrop::into_inner(ex))));
                    if dr.is_err() {
                        fails.push(("returned-world-drop-panicked".into(), util::take_last_panic()));
                    }
                }
            }
        }));
        if r.is_err() {
            fails.push((format!("continuation-panicked seq={:?}", seq.iter().map(|&o| conts[o].kind()).collect::<Vec<_>>()), util::take_last_panic()));
        }
        let errs: Vec<TokErr> = comp::with_ledger(|l| l.errors.clone()).unwrap_or_default();
        for e in &errs {
            match e {
                TokErr::DoubleDrop { .. } | TokErr::ZstUnderflow { .. } | TokErr::DropUnknown { .. } => fails.push((format!("double-or-invalid-drop outcome={}", outcome), format!("{:?}", e))),
                _ => fails.push((format!("invalid-value-touched outcome={}", outcome), format!("{:?}", e))),
            }
        }
        let sys: Vec<(String, String)> = arena::with_system(|| fails.iter().map(|(a, b)| (a.as_str().to_owned(), b.as_str().to_owned())).collect());
        drop(fails);
        drop(errs);
        drop(comp::ledger_end());
        let rep = arena::end();
        v.fails.extend(sys);
        if !rep.errors.is_empty() {
            v.fails.push((format!("allocator-misuse outcome={}", outcome), rep.describe()));
        }
        v.outcome = outcome;
        v.ok_leak += ok_leak;
        if si > 0 {
            v.continuations += 1;
        }
        if stop || !v.fails.is_empty() {
            break;
        }
    }
    v
}

// ---------------------------------------------------------------------------------------------

struct BaseSer {
    hist: Vec<u8>,
    compact: Vec<Token>,
    human: Vec<Token>,
    json: String,
    compact_seq: Vec<Token>,
    human_seq: Vec<Token>,
    json_seq: String,
    /// old position -> new position for the two token encodings
    compact_map: Vec<Option<usize>>,
    human_map: Vec<Option<usize>>,
}

impl BaseSer {
    fn tokens(&self, enc: Enc) -> &Vec<Token> {
        match enc {
            Enc::Compact => &self.compact,
            Enc::Human => &self.human,
            Enc::CompactSeq => &self.compact_seq,
            _ => &self.human_seq,
        }
    }
    fn json_text(&self, enc: Enc) -> &str {
        if enc == Enc::Json { &self.json } else { &self.json_seq }
    }
}

fn serialize_bases(depth: usize, limit: usize) -> Vec<BaseSer> {
    let mut out = serialize_base_list(bases(depth));
    // keep distinct serializations only, smallest first
    out.sort_by_key(|b| b.compact.len());
    out.dedup_by(|a, b| a.json == b.json);
    out.truncate(limit);
    out.extend(serialize_base_list(crate::extra_ser_bases()));
    out
}

fn serialize_base_list(list: Vec<Vec<u8>>) -> Vec<BaseSer> {
    let ops = base_alphabet();
    let mut out = Vec::new();
    for h in list {
        arena::begin(0);
        comp::ledger_begin();
        let ser = {
            let ex = build(&ops, &h);
            let c = to_tokens(&ex.w, false).unwrap();
            let hu = to_tokens(&ex.w, true).unwrap();
            let j = serde_json::to_string(&ex.w).unwrap();
            arena::with_system(|| {
                let (cs, cm) = structs_as_seqs(&c.0);
                let (hs, hm) = structs_as_seqs(&hu.0);
                let js = serde_json::to_string(&json_structs_as_arrays(&serde_json::from_str(&j).unwrap())).unwrap();
                BaseSer { hist: h.clone(), compact: c.0.clone(), human: hu.0.clone(), json: j.as_str().to_owned(), compact_seq: cs, human_seq: hs, json_seq: js, compact_map: cm, human_map: hm }
            })
        };
        drop(comp::ledger_end());
        let _ = arena::end();
        out.push(ser);
    }
    out
}

#[derive(Clone, Debug)]
struct Case {
    base: usize,
    enc: Enc,
    edits: Vec<Edit>,
    /// JSON inputs are stored by index into the per-base list
    json_idx: usize,
}

pub fn worker_c11(tier: &str, shard: usize, nshards: usize, resume: Option<usize>) -> i32 {
    let pool = rayon::ThreadPoolBuilder::new().num_threads(1).build().unwrap();
    pool.install(|| {
        arena::init_thread(0);
        let (bases, cases) = enumerate(tier);
        let cont_depth = 1;
        let mut i = shard;
        let (mut n_ok, mut n_err, mut n_env, mut leaks, mut conts) = (0u64, 0u64, 0u64, 0u64, 0u64);
        let mut per_enc: BTreeMap<Enc, [u64; 3]> = BTreeMap::new();
        while i < cases.len() {
            if resume.map_or(false, |r| i <= r) {
                i += nshards;
                continue;
            }
            let c = &cases[i];
            util::set_crash_descriptor(&format!("engine=fault-c11 case={} base={:?} enc={:?} edits={:?} json_idx={}", i, bases[c.base].hist, c.enc, c.edits, c.json_idx));
            let b = &bases[c.base];
            let verdict = match c.enc {
                enc if enc.is_json() => {
                    let inputs = json_inputs(b.json_text(enc));
                    judge(&Input::Json(&inputs[c.json_idx]), cont_depth)
                }
                enc => {
                    let base_tokens = b.tokens(enc);
                    let mut t = base_tokens.clone();
                    let mut ok = true;
                    for e in &c.edits {
                        match apply_edit(&t, *e) {
                            Some(t2) => t = t2,
                            None => {
                                ok = false;
                                break;
                            }
                        }
                    }
                    if !ok {
                        i += nshards;
                        continue;
                    }
                    judge(&Input::Tok(&t, enc.human()), cont_depth)
                }
            };
            let slot = per_enc.entry(c.enc).or_insert([0; 3]);
            match verdict.outcome {
                "ok" => { n_ok += 1; slot[0] += 1 }
                "err" => { n_err += 1; slot[1] += 1 }
                _ => { n_env += 1; slot[2] += 1 }
            }
            leaks += (verdict.leaked_values_on_err > 0) as u64;
            if verdict.ok_leak > 0 {
                println!("FAIL C04:deserialize-ok-path-leak :: {} value(s) constructed during a successful deserialization are owned by no world :: {{\"engine\":\"fault-c11\",\"tier\":\"{}\",\"case\":{},\"base\":{:?},\"enc\":\"{:?}\",\"edits\":\"{:?}\",\"json_idx\":{}}}", verdict.ok_leak, tier, i, b.hist, c.enc, c.edits, c.json_idx);
            }
            // values constructed by a FAILED deserialization and never dropped are counted (`err_with_leak`) but are not
            // a verdict: the unchanged tree leaks partially deserialized rows and columns on several error paths, and
            // neither C04 nor C11 speaks about leaks on the error path (DESIGN.md, C11 notes)
            conts += verdict.continuations;
            for (k, d) in &verdict.fails {
                println!("FAIL {} :: {} :: {{\"engine\":\"fault-c11\",\"tier\":\"{}\",\"case\":{},\"base\":{:?},\"enc\":\"{:?}\",\"edits\":\"{:?}\",\"json_idx\":{}}}", k.replace(' ', "_"), d.replace('\n', " "), tier, i, b.hist, c.enc, c.edits, c.json_idx);
            }
            if i % 997 == shard % 997 {
                println!("PROGRESS {}", i);
            }
            i += nshards;
        }
        println!("DONE {{\"ok\":{},\"err\":{},\"env\":{},\"err_with_leak\":{},\"continuations\":{},\"per_enc\":{:?}}}", n_ok, n_err, n_env, leaks, conts, per_enc.iter().map(|(k, v)| (format!("{:?}", k), v.to_vec())).collect::<BTreeMap<_, _>>());
    });
    0
}

/// Every triple of alterations of bookkeeping numbers at three distinct positions (an identifier claimed twice needs the
/// duplicate, a matching generation and an adjusted length at once).  Bases with more than `cap` single alterations of that
/// kind are left to the pairs.
fn push_numeric_triples(cases: &mut Vec<Case>, bi: usize, enc: Enc, numeric: &[Edit], cap: usize) {
    if numeric.len() > cap {
        return;
    }
    let pos = |e: &Edit| match e {
        Edit::Alter(i, _) => *i,
        _ => usize::MAX,
    };
    for (x, e1) in numeric.iter().enumerate() {
        for (y, e2) in numeric.iter().enumerate().skip(x + 1) {
            if pos(e1) == pos(e2) {
                continue;
            }
            for e3 in &numeric[y + 1..] {
                if pos(e3) == pos(e1) || pos(e3) == pos(e2) {
                    continue;
                }
                cases.push(Case { base: bi, enc, edits: vec![*e3, *e2, *e1], json_idx: 0 });
            }
        }
    }
}

fn enumerate(tier: &str) -> (Vec<BaseSer>, Vec<Case>) {
    let quick = tier == "quick";
    let bases = serialize_bases(if quick { 2 } else { 3 }, if quick { 14 } else { 120 });
    let mut cases = Vec::new();
    for (bi, b) in bases.iter().enumerate() {
        for (enc, toks) in [(Enc::Compact, &b.compact), (Enc::Human, &b.human)] {
            let singles = single_edits(toks, !quick);
            for e in &singles {
                cases.push(Case { base: bi, enc, edits: vec![*e], json_idx: 0 });
            }
            // every pair of alterations of bookkeeping numbers (entity index / generation / allocator length): the
            // consistent-looking corruptions (e.g. one identifier on two rows with the length adjusted) need two edits
            {
                let numeric: Vec<Edit> = singles
                    .iter()
                    .copied()
                    .filter(|e| match e {
                        Edit::Alter(i, _) => *i > 0 && matches!(toks[*i - 1], Token::Field("index") | Token::Field("generation") | Token::Field("length")),
                        _ => false,
                    })
                    .collect();
                for (x, e1) in numeric.iter().enumerate() {
                    for e2 in &numeric[x + 1..] {
                        if let (Edit::Alter(i1, _), Edit::Alter(i2, _)) = (e1, e2) {
                            if i1 != i2 && (quick || bi >= 6) {
                                cases.push(Case { base: bi, enc, edits: vec![*e2, *e1], json_idx: 0 });
                            }
                        }
                    }
                }
                push_numeric_triples(&mut cases, bi, enc, &numeric, if quick { 200 } else { 320 });
            }
            // thorough: all pairs of (non-swap) edits on the smallest bases
            if !quick && bi < 6 {
                let basic: Vec<Edit> = singles.iter().copied().filter(|e| !matches!(e, Edit::Swap(..))).collect();
                for (x, e1) in basic.iter().enumerate() {
                    for e2 in &basic[x + 1..] {
                        // apply the later position first so indices stay valid
                        cases.push(Case { base: bi, enc, edits: vec![*e2, *e1], json_idx: 0 });
                    }
                }
            }
        }
        let n = json_inputs(&b.json).len();
        for k in 0..n {
            cases.push(Case { base: bi, enc: Enc::Json, edits: vec![], json_idx: k });
        }
    }
    // structs written as sequences: the unedited stream, every single edit, and the pairs of bookkeeping-number
    // alterations (positions translated from the struct form, where the field names identify them)
    for (bi, b) in bases.iter().enumerate() {
        for (enc, toks, orig, map) in [(Enc::CompactSeq, &b.compact_seq, &b.compact, &b.compact_map), (Enc::HumanSeq, &b.human_seq, &b.human, &b.human_map)] {
            cases.push(Case { base: bi, enc, edits: vec![], json_idx: 0 });
            let singles = single_edits(toks, !quick);
            for e in &singles {
                cases.push(Case { base: bi, enc, edits: vec![*e], json_idx: 0 });
            }
            let numeric_pos: BTreeSet<usize> = (1..orig.len())
                .filter(|i| matches!(orig[*i - 1], Token::Field("index") | Token::Field("generation") | Token::Field("length")))
                .filter_map(|i| map[i])
                .collect();
            let numeric: Vec<Edit> = singles.iter().copied().filter(|e| matches!(e, Edit::Alter(i, _) if numeric_pos.contains(i))).collect();
            for (x, e1) in numeric.iter().enumerate() {
                for e2 in &numeric[x + 1..] {
                    if let (Edit::Alter(i1, _), Edit::Alter(i2, _)) = (e1, e2) {
                        if i1 != i2 && (quick || bi >= 6) {
                            cases.push(Case { base: bi, enc, edits: vec![*e2, *e1], json_idx: 0 });
                        }
                    }
                }
            }
            push_numeric_triples(&mut cases, bi, enc, &numeric, if quick { 200 } else { 320 });
        }
        let n = json_inputs(&b.json_seq).len();
        for k in 0..n {
            cases.push(Case { base: bi, enc: Enc::JsonSeq, edits: vec![], json_idx: k });
        }
    }
    (bases, cases)
}

pub fn main_c11(tier: &str, threads: usize, evidence: Option<&str>, replay_dir: &str, seed: i64, prop: &str) -> i32 {
    use std::io::{BufRead, BufReader};
    use std::process::{Command, Stdio};
    let t0 = Instant::now();
    let pool = rayon::ThreadPoolBuilder::new().num_threads(1).build().unwrap();
    let (bases, cases) = pool.install(|| {
        arena::init_thread(0);
        enumerate(tier)
    });
    println!("config c11: {} base serializations x 6 encodings, {} inputs", bases.len(), cases.len());
    let exe = std::env::current_exe().unwrap();
    let found: std::sync::Mutex<Vec<(String, String, String, u64)>> = std::sync::Mutex::new(Vec::new());
    let totals: std::sync::Mutex<(u64, u64, u64, u64, u64, BTreeMap<String, Vec<u64>>, u64)> = std::sync::Mutex::new((0, 0, 0, 0, 0, BTreeMap::new(), 0));
    let machinery: std::sync::Mutex<Vec<String>> = std::sync::Mutex::new(Vec::new());
    std::thread::scope(|sc| {
        for t in 0..threads {
            let (exe, found, totals, machinery) = (&exe, &found, &totals, &machinery);
            sc.spawn(move || {
                let mut resume: Option<usize> = None;
                let mut restarts = 0;
                loop {
                    let mut cmd = Command::new(exe);
                    cmd.args(["--mode", "c11-worker", "--tier", tier, "--shard", &format!("{}/{}", t, threads)]);
                    if let Some(r) = resume {
                        cmd.args(["--resume", &format!("{},0,0,0", r)]);
                    }
                    let mut child = cmd.stdout(Stdio::piped()).stderr(Stdio::null()).spawn().expect("spawn worker");
                    let rd = BufReader::new(child.stdout.take().unwrap());
                    let mut crashed: Option<String> = None;
                    let mut done = false;
                    for line in rd.lines() {
                        let Ok(line) = line else { break };
                        if let Some(rest) = line.strip_prefix("DONE ") {
                            done = true;
                            let j: serde_json::Value = serde_json::from_str(rest).unwrap();
                            let mut tt = totals.lock().unwrap();
                            tt.0 += j["ok"].as_u64().unwrap();
                            tt.1 += j["err"].as_u64().unwrap();
                            tt.2 += j["env"].as_u64().unwrap();
                            tt.3 += j["err_with_leak"].as_u64().unwrap();
                            tt.4 += j["continuations"].as_u64().unwrap();
                            for (k, v) in j["per_enc"].as_object().unwrap() {
                                let e = tt.5.entry(k.clone()).or_insert(vec![0, 0, 0]);
                                for x in 0..3 {
                                    e[x] += v[x].as_u64().unwrap();
                                }
                            }
                        } else if let Some(rest) = line.strip_prefix("FAIL ") {
                            let parts: Vec<&str> = rest.splitn(3, " :: ").collect();
                            // keys of the form "C04:<key>" belong to C04, everything else to C11
                            let (fprop, key) = match parts[0].split_once(':') {
                                Some((p, k)) if p.len() == 3 && p.starts_with('C') => (p, k),
                                _ => ("C11", parts[0]),
                            };
                            if parts.len() == 3 && fprop == prop {
                                let parts = [key, parts[1], parts[2]];
                                let mut f = found.lock().unwrap();
                                if let Some(x) = f.iter_mut().find(|x| x.0 == parts[0]) {
                                    x.3 += 1;
                                } else {
                                    f.push((parts[0].to_string(), parts[1].to_string(), parts[2].to_string(), 1));
                                }
                            }
                        } else if line.starts_with("CRASH ") {
                            crashed = Some(line);
                        }
                    }
                    let _ = child.wait();
                    match crashed {
                        None => {
                            if !done {
                                machinery.lock().unwrap().push(format!("worker {} ended without DONE", t));
                            }
                            break;
                        }
                        Some(line) => {
                            let case: Option<usize> = line.split_whitespace().find_map(|w| w.strip_prefix("case=")).and_then(|v| v.parse().ok());
                            let Some(case) = case else {
                                machinery.lock().unwrap().push(format!("unparseable crash line: {}", line));
                                break;
                            };
                            let detail = line.split("last_panic=").nth(1).unwrap_or("").to_string();
                            let desc = line.split("desc=").nth(1).unwrap_or("").split(" last_panic=").next().unwrap_or("").to_string();
                            let mut f = found.lock().unwrap();
                            let key = "process-abort".to_string();
                            if let Some(x) = f.iter_mut().find(|x| x.0 == key) {
                                x.3 += 1;
                            } else {
                                f.push((key, detail, format!("{{\"engine\":\"fault-c11\",\"tier\":\"{}\",\"case\":{},\"descriptor\":{}}}", tier, case, util::json_str(&desc)), 1));
                            }
                            totals.lock().unwrap().6 += 1;
                            // partial counts of the crashed worker are lost; it restarts after the crashing case
                            resume = Some(case);
                            restarts += 1;
                            if restarts > 5000 {
                                machinery.lock().unwrap().push("too many worker restarts".into());
                                break;
                            }
                        }
                    }
                }
            });
        }
    });
    let mut found = found.into_inner().unwrap();
    let tt = totals.into_inner().unwrap();
    let mut machinery = machinery.into_inner().unwrap();
    // second registry (first component unused by every table): every Deserialize call position of a component returning
    // an error, judged by the ledger and the allocator (src/shifted.rs); run in a child, crashes attributed to the last case
    let mut shifted_cases = 0u64;
    if prop == "C11" || prop == "C05" {
        let mut restart_after: Option<String> = None;
        let mut rounds = 0;
        loop {
            rounds += 1;
            let out = std::process::Command::new(&exe).args(["--mode", "c11-shifted"]).envs(restart_after.iter().map(|c| ("SHIFTED_SKIP_TO", c.clone()))).output().expect("spawn shifted");
            let text = String::from_utf8_lossy(&out.stdout).to_string();
            let mut last_case = String::new();
            let mut done = false;
            for line in text.lines() {
                if let Some(c) = line.strip_prefix("SCASE ") {
                    last_case = c.to_string();
                } else if let Some(rest) = line.strip_prefix("SFAIL ") {
                    let (key, detail) = rest.split_once(" :: ").unwrap_or((rest, ""));
                    let key = format!("{}_(registry_with_an_unused_first_component)", key.replace(' ', "_"));
                    if let Some(x) = found.iter_mut().find(|x| x.0 == key) {
                        x.3 += 1;
                    } else {
                        found.push((key, detail.to_string(), format!("{{\"engine\":\"fault-c11-shifted\",\"tier\":\"{}\",\"case\":{}}}", tier, util::json_str(&last_case)), 1));
                    }
                } else if let Some(n) = line.strip_prefix("SDONE ") {
                    shifted_cases = n.trim().parse().unwrap_or(0);
                    done = true;
                }
            }
            if done {
                break;
            }
            // the child died inside `last_case`
            let key = "process-abort_(registry_with_an_unused_first_component)".to_string();
            if !found.iter().any(|x| x.0 == key) {
                found.push((key, format!("the process died in case {}", last_case), format!("{{\"engine\":\"fault-c11-shifted\",\"tier\":\"{}\",\"case\":{}}}", tier, util::json_str(&last_case)), 1));
            }
            if last_case.is_empty() || rounds > 200 {
                machinery.push("shifted-registry child died outside a case".into());
                break;
            }
            restart_after = Some(last_case);
        }
    }
    let dir = format!("{}/{}", replay_dir, prop);
    let _ = std::fs::create_dir_all(&dir);
    let mut found_json = Vec::new();
    for (key, detail, case, count) in &found {
        let fname: String = key.chars().map(|c| if c.is_ascii_alphanumeric() || c == '-' || c == '=' { c } else { '_' }).collect();
        let path = format!("{}/{}.json", dir, &fname[..fname.len().min(120)]);
        let mut j: serde_json::Value = serde_json::from_str(case).unwrap_or(serde_json::json!({"raw": case}));
        j["property"] = prop.into();
        j["key"] = key.clone().into();
        j["detail"] = detail.clone().into();
        j["occurrences"] = (*count).into();
        std::fs::write(&path, serde_json::to_string_pretty(&j).unwrap()).unwrap();
        println!("FOUND property={} key={} replay={} count={} :: {}", prop, key, path, count, &detail[..detail.len().min(300)]);
        found_json.push(serde_json::json!({"key": key, "replay": path, "count": count}));
    }
    let total = tt.0 + tt.1 + tt.2 + tt.6;
    let sample_cases: Vec<serde_json::Value> = [cases.len() / 5, cases.len() / 2, cases.len() - 1]
        .iter()
        .map(|&i| serde_json::json!({"base_history": bases[cases[i].base].hist, "encoding": format!("{:?}", cases[i].enc), "edits": format!("{:?}", cases[i].edits), "json_input_index": cases[i].json_idx}))
        .collect();
    let ev = serde_json::json!({
        "property_id": prop, "tier": tier, "seed": seed, "level": "fault_enumeration",
        "coverage": {
            "evaluations": total, "distinct_nontrivial": tt.0 + tt.1,
            "rule": "inputs = every single edit (delete / duplicate / swap / alter at every position, duplicate / delete of every whole group with the enclosing declared length adjusted; alterations per token kind: integers to {0,1,v-1,v+1,v+len,MAX,v^2}, identifier bytes every single-bit flip, declared lengths +-1/0/None, field and struct names renamed, type changes) of every base serialization in compact and human-readable token encodings, each also with every struct written as a sequence (serde's visit_seq branch, as bincode/postcard use it), plus for JSON text (objects, and structs as arrays): truncation at every byte offset, every value-tree edit and every duplicated key; thorough adds all swaps and all pairs of non-swap edits on the 6 smallest bases. non-trivial = reached brood's deserializer and was judged (Err or Ok), i.e. not rejected by the format layer with a panic of its own",
            "samples": sample_cases,
            "bases": bases.len(), "inputs": cases.len(), "second_registry_error_positions": shifted_cases,
            "outcomes": {"ok_world_returned": tt.0, "err_returned": tt.1, "environment_panics_skipped": tt.2, "process_aborts": tt.6},
            "outcomes_per_encoding_ok_err_env": tt.5,
            "err_paths_that_leaked_values_allowed": tt.3, "continuation_executions_on_returned_worlds": tt.4,
            "exhaustive": machinery.is_empty(), "found": found_json,
        },
        "assumptions": ["declared lengths stay bounded by the input size (+-1 and +len alterations only)", "values leaked on an error path are reported, not counted as violations",
                        "serde_assert / serde_json are the environment; a panic raised inside them (not brood) is not a verdict"],
        "wall_s": t0.elapsed().as_secs_f64(), "violations": found.len(),
    });
    if let Some(p) = evidence {
        std::fs::write(p, serde_json::to_string_pretty(&ev).unwrap()).unwrap();
    }
    println!("config c11 done: {} inputs: ok {} err {} env {} aborts {}; err-with-leak {}; continuations {} [{:.1}s]", total, tt.0, tt.1, tt.2, tt.6, tt.3, tt.4, t0.elapsed().as_secs_f64());
    for m in &machinery {
        println!("MACHINERY-ERROR {}", m);
    }
    if !machinery.is_empty() {
        return 2;
    }
    if found.is_empty() { 0 } else { 1 }
}

pub fn replay(path: &str) -> i32 {
    let j: serde_json::Value = serde_json::from_str(&std::fs::read_to_string(path).unwrap()).unwrap();
    let tier = j["tier"].as_str().unwrap_or("quick").to_string();
    let case = j["case"].as_u64().unwrap() as usize;
    let pool = rayon::ThreadPoolBuilder::new().num_threads(1).build().unwrap();
    pool.install(|| {
        arena::init_thread(0);
        let (bases, cases) = enumerate(&tier);
        let c = &cases[case];
        let b = &bases[c.base];
        println!("base history {:?}; encoding {:?}; edits {:?}", b.hist, c.enc, c.edits);
        let verdict = match c.enc {
            enc if enc.is_json() => {
                let inputs = json_inputs(b.json_text(enc));
                println!("original: {}\ninput:    {}", b.json_text(enc), inputs[c.json_idx]);
                judge(&Input::Json(&inputs[c.json_idx]), 1)
            }
            enc => {
                let base_tokens = b.tokens(enc);
                let mut t = base_tokens.clone();
                for e in &c.edits {
                    t = apply_edit(&t, *e).unwrap();
                }
                println!("original: {:?}\ninput:    {:?}", base_tokens, t);
                judge(&Input::Tok(&t, enc.human()), 1)
            }
        };
        println!("outcome: {}", verdict.outcome);
        for (k, d) in &verdict.fails {
            println!("VIOLATION property=C11 replay={} :: {} :: {}", path, k, d);
        }
        if verdict.fails.is_empty() { println!("no violation"); 0 } else { 1 }
    })
}
