//! C11 / C05 over a second registry whose FIRST component no table uses: `Registry!(Small<20>, A, O, B)`.
//! With the main registry (A first, a zero-sized component second) a mix-up between the columns decoded before a failing
//! column can only leak; here the two columns before the failing one are both sized and of different layouts, so freeing
//! one as the other is an allocator / token error.  Enumerated: 4 worlds x 2 token encodings x every call position of a
//! component's `Deserialize` returning an error.
use mccore::comp::{self, Cb, Comp};
use mccore::s4::{A, B, O};
use mccore::{arena, util};
use brood::{entity, Registry, World};
use serde::{Deserialize, Serialize};
use std::panic::{catch_unwind, AssertUnwindSafe};

type P = comp::Small<20>;
type Reg5 = Registry!(P, A, O, B);
type W5 = World<Reg5>;

fn build(k: usize) -> W5 {
    let mut w = W5::new();
    match k {
        0 => {
            w.insert(entity!(A::make(1), O::make(2), B::make(3)));
            w.insert(entity!(A::make(4), O::make(5), B::make(6)));
        }
        1 => {
            w.insert(entity!(O::make(1), B::make(2)));
            w.insert(entity!(A::make(3), B::make(4)));
        }
        2 => {
            w.insert(entity!(A::make(1), O::make(2)));
            w.insert(entity!(A::make(3), O::make(4)));
            w.insert(entity!(B::make(5)));
        }
        _ => {
            w.insert(entity!(P::make(9), A::make(1), O::make(2), B::make(3)));
            w.insert(entity!(A::make(4), O::make(5), B::make(6)));
        }
    }
    w
}

fn de(w: &W5, human: bool) -> Result<W5, String> {
    let ser = serde_assert::Serializer::builder().is_human_readable(human).build();
    let tokens = w.serialize(&ser).map_err(|e| format!("{e:?}"))?;
    let mut d = serde_assert::Deserializer::builder().tokens(tokens).is_human_readable(human).build();
    W5::deserialize(&mut d).map_err(|e| format!("{e:?}"))
}

/// One case; prints `SFAIL <key> :: <detail>` for every failure.  `k = None` is the unfaulted run (returns the number of
/// `Deserialize` calls).
fn run_case(world: usize, human: bool, k: Option<u64>) -> u64 {
    util::set_crash_descriptor(&format!("engine=fault-c11-shifted world={} human={} k={:?}", world, human, k));
    println!("SCASE world={} human={} k={:?}", world, human, k);
    arena::begin(0);
    comp::ledger_begin();
    let mut fails: Vec<(String, String)> = Vec::new();
    let mut ncalls = 0;
    let r = catch_unwind(AssertUnwindSafe(|| {
        let w = build(world);
        let c0 = comp::calls()[Cb::Deserialize as usize];
        if let Some(k) = k {
            comp::arm(Cb::DeserializeErr, comp::calls()[Cb::DeserializeErr as usize] + k);
        }
        let res = de(&w, human);
        comp::disarm();
        ncalls = comp::calls()[Cb::Deserialize as usize] - c0;
        match (&res, k) {
            (Err(e), None) => fails.push(("roundtrip-failed".into(), e.clone())),
            (Ok(_), Some(_)) => fails.push(("component-error-swallowed".into(), "deserialization returned a world although a component refused its value".into())),
            _ => {}
        }
        drop(res);
        drop(w);
    }));
    if r.is_err() {
        fails.push(("panicked".into(), util::take_last_panic()));
    }
    let errs = comp::with_ledger(|l| l.errors.clone()).unwrap_or_default();
    for e in &errs {
        fails.push(("drop-or-value-error-after-failed-column-decode".into(), format!("{:?}", e)));
    }
    let sys: Vec<(String, String)> = arena::with_system(|| fails.iter().map(|(a, b)| (a.as_str().to_owned(), b.as_str().to_owned())).collect());
    drop(fails);
    drop(errs);
    drop(comp::ledger_end());
    let rep = arena::end();
    for (key, detail) in sys {
        FAILS.fetch_add(1, std::sync::atomic::Ordering::Relaxed);
        println!("SFAIL {} :: {}", key, detail.replace('\n', " "));
    }
    if !rep.errors.is_empty() {
        FAILS.fetch_add(1, std::sync::atomic::Ordering::Relaxed);
        println!("SFAIL allocator-misuse-after-failed-column-decode :: {}", rep.describe().replace('\n', " "));
    }
    ncalls
}

pub const WORLDS: usize = 4;
static FAILS: std::sync::atomic::AtomicU64 = std::sync::atomic::AtomicU64::new(0);

/// `--mode c11-shifted [--only world,human,k]`: the whole enumeration in this process (a crash is attributed by the parent
/// to the last `SCASE` line).
pub fn worker(only: Option<(usize, bool, u64)>) -> i32 {
    arena::init_thread(0);
    if let Some((w, h, k)) = only {
        // plain replay: exit 1 when the case fails (a crash is reported by the crash handler)
        FAILS.store(0, std::sync::atomic::Ordering::Relaxed);
        run_case(w, h, Some(k));
        return (FAILS.load(std::sync::atomic::Ordering::Relaxed) > 0) as i32;
    }
    let mut n = 0u64;
    // after a crash the parent restarts the enumeration behind the case that died
    let skip_to = std::env::var("SHIFTED_SKIP_TO").ok();
    let mut skipping = skip_to.is_some();
    for world in 0..WORLDS {
        for human in [false, true] {
            let calls = run_case(world, human, None);
            for k in 0..calls {
                if skipping {
                    if Some(format!("world={} human={} k={:?}", world, human, Some(k))) == skip_to {
                        skipping = false;
                    }
                    continue;
                }
                run_case(world, human, Some(k));
                n += 1;
            }
        }
    }
    println!("SDONE {}", n);
    0
}
