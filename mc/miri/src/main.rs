//! C05 under Miri: every operation sequence up to a depth, over registries of 0, 2, 4, 5 (first component one byte wide), 8 and 9 components, executed on the
//! real `World` with the interpreter as the oracle for what the checking allocator of the other engines cannot see (reads
//! outside an allocation, misaligned or dangling references that are never written through, invalid values, leaks at exit).
//! No custom allocator, no signal handlers: plain `std`.  One line `HIST <registry> <ops>` is printed before each sequence, so
//! the last line before a Miri diagnostic names the failing sequence (`--only <registry> <ops>` replays one).

use brood::{
    entities, entity,
    query::{filter, result, Views},
    Entity, Query, Registry, World,
};
use rayon::iter::ParallelIterator;
use serde::{Deserialize, Deserializer, Serialize, Serializer};

macro_rules! comps {
    ($($t:ident),*) => {
        $(
            #[derive(Clone, Debug, PartialEq)]
            pub struct $t(pub Box<u32>);
            impl Serialize for $t {
                fn serialize<S: Serializer>(&self, s: S) -> Result<S::Ok, S::Error> { s.serialize_u32(*self.0) }
            }
            impl<'de> Deserialize<'de> for $t {
                fn deserialize<D: Deserializer<'de>>(d: D) -> Result<Self, D::Error> { Ok($t(Box::new(u32::deserialize(d)?))) }
            }
        )*
    };
}
comps!(T0, T1, T2, T3, T4, T5, T6, T7, T8);
/// one byte, no destructor: puts the components after it at odd offsets of the packed row buffer of Entry::add / remove
#[derive(Clone, Debug, PartialEq, Serialize, Deserialize)]
pub struct U1(pub u8);
pub trait Mk {
    fn mk(v: u32) -> Self;
}
impl Mk for U1 {
    fn mk(v: u32) -> Self {
        U1(v as u8)
    }
}
macro_rules! mk_box { ($($t:ident),*) => { $(impl Mk for $t { fn mk(v: u32) -> Self { $t(Box::new(v)) } })* }; }
mk_box!(T0, T1, T2, T3, T4, T5, T6, T7, T8);
/// zero-sized with a destructor
#[derive(Clone, Debug, PartialEq, Serialize, Deserialize)]
pub struct Z;

fn round_trip<W: Serialize + for<'de> Deserialize<'de> + PartialEq>(w: &W, human: bool, seq: bool) -> W {
    let ser = if seq {
        serde_assert::Serializer::builder().is_human_readable(human).serialize_struct_as(serde_assert::ser::SerializeStructAs::Seq).build()
    } else {
        serde_assert::Serializer::builder().is_human_readable(human).build()
    };
    let tokens = w.serialize(&ser).expect("serialize");
    let mut de = serde_assert::Deserializer::builder().tokens(tokens).is_human_readable(human).build();
    let back = W::deserialize(&mut de).expect("deserialize of own output");
    assert!(back == *w, "round trip differs");
    back
}

pub const NOPS: usize = 17;
pub const OP_NAMES: [&str; NOPS] = ["insert_first", "insert_last_first", "extend_mid_last_x2", "remove_oldest", "add_last_to_newest", "remove_first_from_oldest", "mut_query_last",
    "filtered_query", "clear", "clone", "shrink", "rt_compact", "rt_human_seq", "reserve_rev", "entries_query", "par_query", "remove_last_and_mid_from_newest"];

macro_rules! harness {
    ($name:ident, [$($t:ty),*], $first:ident, $mid:ident, $last:ident) => {
        pub mod $name {
            use super::*;
            use rayon_free::*;
            pub type Reg = Registry!($($t),*);
            pub type W = World<Reg>;
            pub fn run(ops: &[usize]) {
                let mut w = W::new();
                let mut ids: Vec<entity::Identifier> = Vec::new();
                let mut aux: Option<W> = None;
                for &op in ops {
                    match op {
                        0 => ids.push(w.insert(entity!(<$first as Mk>::mk(1)))),
                        1 => ids.push(w.insert(entity!(<$last as Mk>::mk(2), <$first as Mk>::mk(3)))),
                        2 => ids.extend(w.extend(entities!((<$mid as Mk>::mk(4), <$last as Mk>::mk(5)); 2))),
                        3 => {
                            if !ids.is_empty() {
                                let id = ids.remove(0);
                                w.remove(id);
                                // and once more through the now stale identifier
                                w.remove(id);
                                assert!(!w.contains(id));
                            }
                        }
                        4 => {
                            if let Some(mut e) = ids.last().and_then(|id| w.entry(*id)) {
                                e.add(<$last as Mk>::mk(6));
                                e.add(<$mid as Mk>::mk(7));
                            }
                        }
                        5 => {
                            if let Some(mut e) = ids.first().and_then(|id| w.entry(*id)) {
                                e.remove::<$first, _>();
                                let _ = e.query(Query::<Views!(Option<&$last>, entity::Identifier)>::new());
                            }
                        }
                        6 => {
                            for result!(x, id) in w.query(Query::<Views!(&mut $last, entity::Identifier)>::new()).iter {
                                *x.0 += 1;
                                std::hint::black_box(id);
                            }
                        }
                        7 => {
                            let n = w.query(Query::<Views!(entity::Identifier, Option<&$mid>), filter::And<filter::Has<$last>, filter::Not<filter::Has<$first>>>>::new()).iter.count();
                            std::hint::black_box(n);
                        }
                        8 => {
                            w.clear();
                            ids.clear();
                        }
                        9 => {
                            let c = w.clone();
                            assert!(c == w);
                            match aux.as_mut() {
                                Some(a) => a.clone_from(&w),
                                None => aux = Some(c),
                            }
                        }
                        10 => w.shrink_to_fit(),
                        11 => w = round_trip(&w, false, false),
                        12 => w = round_trip(&w, true, true),
                        13 => w.reserve::<Entity!($last, $first), _>(3),
                        14 => {
                            let mut res = w.query(Query::<Views!(entity::Identifier), filter::None, Views!(), Views!(&mut $last, Option<&$first>)>::new());
                            let seen: Vec<entity::Identifier> = res.iter.map(|result!(id)| id).collect();
                            for id in seen {
                                if let Some(mut e) = res.entries.entry(id) {
                                    if let Some(result!(l)) = e.query(Query::<Views!(&mut $last)>::new()) {
                                        *l.0 += 1;
                                    }
                                    // optional sub-views of the required entry view, also for entities without it
                                    if let Some(result!(l, f)) = e.query(Query::<Views!(Option<&mut $last>, Option<&$first>)>::new()) {
                                        std::hint::black_box((l.is_some(), f.is_some()));
                                    }
                                    if let Some(result!(l)) = e.query(Query::<Views!(Option<&$last>)>::new()) {
                                        std::hint::black_box(l.is_some());
                                    }
                                }
                            }
                        }
                        16 => {
                            if let Some(mut e) = ids.last().and_then(|id| w.entry(*id)) {
                                e.remove::<$last, _>();
                                e.remove::<$mid, _>();
                            }
                        }
                        _ => par(&mut w, |w| {
                            let n: u32 = w.par_query(Query::<Views!(&mut $last, Option<&$first>)>::new()).iter.map(|result!(l, f)| { *l.0 += 1; f.map_or(0u32, |_| 1) }).sum();
                            std::hint::black_box(n);
                        }),
                    }
                    assert_eq!(w.len(), ids.len());
                    for id in &ids {
                        assert!(w.contains(*id));
                    }
                }
                if let Some(a) = aux.as_mut() {
                    // `==` is structural (it also counts emptied tables, which clone_from keeps in the destination), so only
                    // the contents are compared here
                    a.clone_from(&w);
                    assert_eq!(a.len(), w.len());
                    for id in &ids {
                        assert!(a.contains(*id));
                    }
                }
            }
        }
    };
}

mod rayon_free {
    /// parallel queries run on the calling thread pool; under Miri that is the global rayon pool (real threads, interpreted)
    pub fn par<W>(w: &mut W, f: impl FnOnce(&mut W)) {
        f(w)
    }
}

harness!(r2, [T0, T1], T0, T0, T1);
harness!(r4, [T0, Z0, T1, T2], T0, T1, T2);
harness!(r5, [U1, T0, Z0, T1, T2], U1, T1, T2);
harness!(r8, [T0, T1, T2, T3, T4, T5, T6, T7], T0, T3, T7);
harness!(r9, [T0, T1, T2, T3, T4, T5, T6, T7, T8], T0, T7, T8);
pub type Z0 = Z;

/// The registry without components: only component-less entities exist.
pub mod r0 {
    use super::*;
    pub type W = World<Registry!()>;
    pub fn run(ops: &[usize]) {
        let mut w = W::new();
        let mut ids: Vec<entity::Identifier> = Vec::new();
        for &op in ops {
            match op % 8 {
                0 | 1 => ids.push(w.insert(entity!())),
                2 => {
                    if !ids.is_empty() {
                        let id = ids.remove(0);
                        w.remove(id);
                        w.remove(id);
                    }
                }
                3 => {
                    w.clear();
                    ids.clear();
                }
                4 => {
                    let c = w.clone();
                    assert!(c == w);
                    w = c;
                }
                5 => w.shrink_to_fit(),
                6 => w = round_trip(&w, false, false),
                _ => w = round_trip(&w, true, true),
            }
            assert_eq!(w.len(), ids.len());
            let n = w.query(Query::<Views!(entity::Identifier)>::new()).iter.count();
            assert_eq!(n, ids.len());
        }
    }
}

fn sequences(depth: usize, nops: usize, with_par: bool, f: &mut dyn FnMut(&[usize])) {
    fn rec(cur: &mut Vec<usize>, depth: usize, nops: usize, with_par: bool, f: &mut dyn FnMut(&[usize])) {
        f(cur);
        if cur.len() == depth {
            return;
        }
        for op in 0..nops {
            if op == 15 && !with_par {
                continue;
            }
            cur.push(op);
            rec(cur, depth, nops, with_par, f);
            cur.pop();
        }
    }
    rec(&mut Vec::new(), depth, nops, with_par, f);
}

fn run_reg(name: &str, ops: &[usize]) {
    match name {
        "r0" => r0::run(ops),
        "r2" => r2::run(ops),
        "r4" => r4::run(ops),
        "r5" => r5::run(ops),
        "r8" => r8::run(ops),
        _ => r9::run(ops),
    }
}

fn main() {
    let args: Vec<String> = std::env::args().collect();
    if args.get(1).map(|s| s.as_str()) == Some("--only") {
        let ops: Vec<usize> = args[3].split(',').filter(|s| !s.is_empty()).map(|s| s.parse().unwrap()).collect();
        println!("HIST {} {:?} ({})", args[2], ops, ops.iter().map(|o| OP_NAMES[*o]).collect::<Vec<_>>().join("; "));
        run_reg(&args[2], &ops);
        println!("DONE 1 sequences");
        return;
    }
    let depth: usize = args.get(1).and_then(|s| s.parse().ok()).unwrap_or(2);
    let regs: Vec<String> = args.get(2).map_or(vec!["r0", "r2", "r4", "r5", "r8", "r9"].into_iter().map(String::from).collect(), |s| s.split(',').map(String::from).collect());
    let with_par = args.get(3).map_or(false, |s| s == "par");
    let mut total = 0u64;
    for r in &regs {
        let nops = if r == "r0" { 8 } else { NOPS };
        let mut n = 0u64;
        sequences(depth, nops, with_par, &mut |ops| {
            println!("HIST {} {}", r, ops.iter().map(|o| o.to_string()).collect::<Vec<_>>().join(","));
            run_reg(r, ops);
            n += 1;
        });
        println!("REG {} depth {} sequences {}", r, depth, n);
        total += n;
    }
    println!("DONE {} sequences", total);
}
