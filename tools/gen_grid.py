#!/usr/bin/env python3
"""Generates the E2 query grid (mc/grid/src/bin/g{q,t}_NN.rs): the full product of view kinds per
component x identifier position x view order x filter, for World::query + World::entry(..).query
(C03) and for par_query with five consumers (C09)."""
import itertools, json, os, sys
ROOT = os.path.dirname(os.path.dirname(os.path.abspath(__file__)))
OUT = os.path.join(ROOT, "mc", "grid", "src", "bin")
COMPS = ["A", "Z", "O"]
POS = {"A": 0, "Z": 1, "O": 2, "B": 3}
KT = {1: "&{l}{c}", 2: "&{l}mut {c}", 3: "Option<&{l}{c}>", 4: "Option<&{l}mut {c}>"}
KF = {1: "gr", 2: "gw", 3: "go", 4: "gp"}
KN = {0: "-", 1: "r", 2: "w", 3: "o", 4: "p"}

def H(c): return ("filter::Has<%s>" % c, "FExpr::Has(%d)" % POS[c], "h" + c)
def N(f): return ("filter::Not<%s>" % f[0], "FExpr::Not(Box::new(%s))" % f[1], "n(" + f[2] + ")")
def AND(a, b): return ("filter::And<%s, %s>" % (a[0], b[0]), "FExpr::And(Box::new(%s), Box::new(%s))" % (a[1], b[1]), "and(%s,%s)" % (a[2], b[2]))
def OR(a, b): return ("filter::Or<%s, %s>" % (a[0], b[0]), "FExpr::Or(Box::new(%s), Box::new(%s))" % (a[1], b[1]), "or(%s,%s)" % (a[2], b[2]))
NONE = ("filter::None", "FExpr::None", "none")
# a views list used as a filter: &A -> Has A, Option<&O> -> true
VIEWF = ("(&'static A, (Option<&'static O>, view::Null))", "FExpr::Has(0)", "views(&A,Option<&O>)")
VIEWF2 = ("(&'static mut B, (entity::Identifier, view::Null))", "FExpr::Has(3)", "views(&mut B,id)")
# `None` and `Not<None>` as leaves of nested filters (statically always / never satisfied), a view list inside Not
NEVER = N(NONE)
FQ = [NONE, H("B"), N(H("Z")), OR(H("A"), N(H("O"))), OR(NEVER, H("B")), N(VIEWF)]
FT = FQ + [AND(NONE, H("A")), N(AND(NONE, N(OR(NEVER, H("A"))))), OR(N(VIEWF2), H("Z")), AND(NEVER, NONE), OR(AND(NEVER, H("A")), N(H("B"))), AND(H("A"), H("B")), N(AND(H("A"), H("Z"))), OR(H("Z"), N(H("Z"))), VIEWF, OR(AND(H("A"), N(H("B"))), AND(H("Z"), H("O"))), AND(N(H("A")), OR(H("B"), H("O"))), VIEWF2]

def view_lists():
    out = []
    for kinds in itertools.product(range(5), repeat=3):
        for idpos in (0, 1, 2):
            out.append((kinds, idpos))
    return out

def items_of(kinds, idpos):
    items = [(c, k) for c, k in zip(COMPS, kinds) if k]
    if idpos == 1:
        items = [("id", 0)] + items
    elif idpos == 2:
        items = items + [("id", 0)]
    return items

def hl(types):
    s = "view::Null"
    for t in reversed(types):
        s = "(%s, %s)" % (t, s)
    return s

def vtype(c, k, lt=""):
    if c == "id":
        return "entity::Identifier"
    return KT[k].format(l=(lt + " ") if lt else "", c=c)

def gen_case(idx, items, kinds, idpos, filt, par):
    label = "%s%s|%s|%s" % ("par:" if par else "", ",".join((KN[k] + c) if c != "id" else "id" for c, k in items) or "()", filt[2], idx)
    vt = hl([vtype(c, k) for c, k in items])
    vta = hl([vtype(c, k, "'a") for c, k in items])
    pats = ", ".join("v%d" % i for i in range(len(items)))
    body = ["let mut r = Row::new();"]
    for i, (c, k) in enumerate(items):
        if c == "id":
            body.append("r.id = Some(idp(v%d));" % i)
        else:
            body.append("r.c[%d] = %s(v%d);" % (POS[c], KF[k], i))
    body.append("r")
    kk = [0, 0, 0, 0]
    for c, k in items:
        if c != "id":
            kk[POS[c]] = k
    lines = []
    lines.append("fn c_%d(ctx: &mut GridCtx) {" % idx)
    lines.append("    fn mk<'a>(result!(%s): %s) -> Row { %s }" % (pats, vta, " ".join(body)))
    lines.append('    let desc = QDesc { label: "%s", kinds: %s, with_id: %s, filter: %s };' % (label, kk, "true" if idpos else "false", filt[1]))
    q = "Query::<%s, %s>::new()" % (vt, filt[0])
    seq = "&|w, mode, rows, hints| { let it = w.query(%s).iter; drive(it, mode, &mut mk, rows, hints) }" % q
    if not par:
        ent = "&|w, id| { let mut e = w.entry(mkid(id))?; e.query(%s).map(mk) }" % q
        lines.append("    run_query_case(ctx, &desc, %s, %s);" % (seq, ent))
    else:
        lines.append("    struct P(std::sync::Mutex<Vec<Row>>, u64);")
        lines.append("    impl brood::system::ParSystem for P { type Views<'a> = %s; type Filter = %s; type ResourceViews<'a> = view::Null; type EntryViews<'a> = view::Null;" % (vta, filt[0]))
        lines.append("        fn run<'a, R, Q, I, E>(&mut self, qr: brood::query::Result<'a, R, Q, I, Self::ResourceViews<'a>, Self::EntryViews<'a>, E>) where R: brood::registry::ContainsViews<'a, Self::EntryViews<'a>, E>, I: ParallelIterator<Item = Self::Views<'a>> { self.1 += 1; let m = &self.0; qr.iter.for_each(|x| { let r = mk(x); m.lock().unwrap().push(r); }); } }")
        lines.append("    run_par_case(ctx, &desc, %s, &|w, consumer, rows| {" % seq)
        lines.append("        let it = w.par_query(%s).iter;" % q)
        lines.append("        match consumer {")
        lines.append("            Consumer::ForEach => { let m = std::sync::Mutex::new(Vec::new()); it.for_each(|x| { let r = mk(x); m.lock().unwrap().push(r); }); rows.extend(m.into_inner().unwrap()); 0 }")
        lines.append("            Consumer::MapCollect => { rows.extend(it.map(mk).collect::<Vec<Row>>()); 0 }")
        lines.append("            Consumer::Count => it.count() as u64,")
        lines.append("            Consumer::Any => it.any(|_| true) as u64,")
        lines.append("            Consumer::Sum => it.map(|_| 3u64).sum::<u64>(),")
        lines.append("            Consumer::TakeAny(k) => { let got = it.take_any(k).collect::<Vec<_>>(); rows.extend(got.into_iter().map(mk)); 0 }")
        lines.append("            Consumer::FindAny => { rows.extend(it.find_any(|_| true).map(mk)); 0 }")
        lines.append("            Consumer::TakeAnyCount(k) => it.take_any(k).count() as u64,")
        lines.append("            Consumer::ParSystem => { drop(it); let mut p = P(std::sync::Mutex::new(Vec::new()), 0); w.run_par_system(&mut p); rows.extend(p.0.into_inner().unwrap()); p.1 }")
        lines.append("        }")
        lines.append("    });")
    lines.append("}")
    return label, "\n".join(lines)

HEADER = """// GENERATED by tools/gen_grid.py -- do not edit.
#![allow(unused_imports, unused_variables)]
use brood::{entity, query::{filter, result, view}, Query};
use mcgrid::*;
use mccore::s4::*;
use rayon::iter::ParallelIterator;
use brood::system::System;
#[global_allocator]
static GLOBAL: mccore::arena::Arena = mccore::arena::Arena;
"""

def orders(items, thorough):
    if len(items) <= 1:
        return [items]
    if thorough:
        perms = list(itertools.permutations(items))
        # cap very long lists: all rotations and the reverse when there are 4 items
        if len(items) == 4:
            perms = [tuple(items[i:] + items[:i]) for i in range(4)] + [tuple(reversed(items))] + [tuple([items[1], items[0], items[3], items[2]])]
        return [list(p) for p in perms]
    return [items, list(reversed(items))]

def build(thorough):
    cases = []
    idx = 0
    for kinds, idpos in view_lists():
        base = items_of(kinds, idpos)
        # the identifier position is expressed by the base order; permutations only over component views
        ords = orders(base, thorough)
        if not thorough:
            # quick: registry order for half of the view lists, reversed order for the other half; filter None
            # plus one of the other quick filters in rotation (the full product is the thorough tier)
            n = len(cases) // 2
            ords = [ords[n % len(ords)]]
            filts = [NONE, FQ[1 + n % (len(FQ) - 1)]]
        else:
            filts = FT
        for items in ords:
            for filt in filts:
                cases.append(gen_case(idx, items, kinds, idpos, filt, False))
                idx += 1
    par = []
    for kinds, idpos in view_lists():
        if idpos == 1:
            continue
        items = items_of(kinds, idpos)
        for filt in ([NONE, H("B"), N(H("Z"))] if thorough else [NONE]):
            if not thorough:
                # quick: every kind alone per component, every kind pair on (A, O), eight triples, identifier last on singles
                nv = sum(1 for k in kinds if k)
                ok = nv <= 1 or (nv == 2 and kinds[1] == 0 and idpos == 0) or (nv == 3 and idpos == 0 and kinds in [(1, 1, 1), (2, 2, 2), (3, 3, 3), (4, 4, 4), (2, 3, 4), (4, 1, 2), (1, 4, 3), (3, 2, 1)])
                if not ok:
                    continue
            par.append(gen_case(idx, items, kinds, idpos, filt, True))
            idx += 1
    return cases, par

SUBS = {0: [0], 1: [0, 1, 3], 2: [0, 1, 2, 3, 4], 3: [0, 1, 3], 4: [0, 1, 2, 3, 4]}

def gen_entries_case(idx, sup, sub, with_id, rev, filt):
    # sup / sub: kinds for (A, Z, O); declared entry views in registry order, sub-views optionally reversed
    sup_items = [(c, k) for c, k in zip(COMPS, sup) if k] + ([("id", 0)] if with_id else [])
    sub_items = [(c, k) for c, k in zip(COMPS, sub) if k] + ([("id", 0)] if with_id else [])
    if rev:
        sub_items = list(reversed(sub_items))
    label = "entries:%s>%s|%s|%d" % (",".join((KN[k] + c) if c != "id" else "id" for c, k in sup_items) or "()", ",".join((KN[k] + c) if c != "id" else "id" for c, k in sub_items) or "()", filt[2], idx)
    supt = hl([vtype(c, k) for c, k in sup_items])
    subt = hl([vtype(c, k) for c, k in sub_items])
    subta = hl([vtype(c, k, "'a") for c, k in sub_items])
    pats = ", ".join("v%d" % i for i in range(len(sub_items)))
    body = ["let mut r = Row::new();"]
    for i, (c, k) in enumerate(sub_items):
        body.append("r.id = Some(idp(v%d));" % i if c == "id" else "r.c[%d] = %s(v%d);" % (POS[c], KF[k], i))
    body.append("r")
    kk = [0, 0, 0, 0]
    for c, k in sub_items:
        if c != "id":
            kk[POS[c]] = k
    lines = ["fn c_%d(ctx: &mut GridCtx) {" % idx,
             "    fn mk<'a>(result!(%s): %s) -> Row { %s }" % (pats, subta, " ".join(body)),
             '    let desc = QDesc { label: "%s", kinds: %s, with_id: %s, filter: %s };' % (label, kk, "true" if with_id else "false", filt[1]),
             "    run_entries_case(ctx, &desc, &|w, ids| {",
             "        let mut res = w.query(Query::<view::Null, filter::None, view::Null, %s>::new());" % supt,
             "        let mut out = Vec::new();",
             "        for &id in ids { match res.entries.entry(mkid(id)) { Some(mut e) => out.push((id, Some(e.query(Query::<%s, %s>::new()).map(mk)))), None => out.push((id, None)) } }" % (subt, filt[0]),
             "        out",
             "    });",
             "}"]
    return label, "\n".join(lines)

def build_entries(thorough):
    import itertools
    cases = []
    idx = 100000
    def filt_for(sup, n):
        declared = [c for c, k in zip(COMPS, sup) if k]
        if not declared or n % 3 == 0:
            return NONE
        c = declared[n % len(declared)]
        return H(c) if n % 3 == 1 else N(H(c))
    combos = []
    if thorough:
        for sup in itertools.product(range(5), repeat=3):
            for sub in itertools.product(*[SUBS[k] for k in sup]):
                combos.append((sup, sub))
    else:
        contexts = [((0, 0), (0, 0)), ((4, 4), (4, 4)), ((1, 2), (3, 1)), ((4, 2), (1, 2))]
        seen = set()
        for focus in range(3):
            for fk in range(5):
                for fs in SUBS[fk]:
                    for (cs, cb) in contexts:
                        sup, sub = [0, 0, 0], [0, 0, 0]
                        others = [i for i in range(3) if i != focus]
                        sup[focus], sub[focus] = fk, fs
                        for o, ks, kb in zip(others, cs, cb):
                            sup[o], sub[o] = ks, kb
                        key = (tuple(sup), tuple(sub))
                        if key not in seen:
                            seen.add(key)
                            combos.append(key)
    for n, (sup, sub) in enumerate(combos):
        with_id = n % 4 == 1
        rev = n % 2 == 1
        cases.append(gen_entries_case(idx, sup, sub, with_id, rev, filt_for(sup, n)))
        idx += 1
    return cases

def build_res():
    import itertools
    R = ["R0", "R1", "R2"]
    cases = []
    idx = 200000
    for k in (1, 2, 3):
        for sub in itertools.permutations(range(3), k):
            # the two cyclic rotations of a three-resource request do not type-check in brood (an observation
            # recorded in DESIGN.md: a limitation, not a wrong answer), so they cannot be exercised at run time
            if sub in ((1, 2, 0), (2, 0, 1)):
                continue
            for muts in itertools.product([False, True], repeat=k):
                views = list(zip(sub, muts))
                vt = hl([("&mut %s" if m else "&%s") % R[i] for i, m in views])
                vta = hl([("&'a mut %s" if m else "&'a %s") % R[i] for i, m in views])
                pats = ", ".join("x%d" % j for j in range(k))
                reads = ", ".join(("rw(x%d)" if m else "rr(x%d)") % j for j, (i, m) in enumerate(views))
                label = "res:%s|%d" % (",".join(("w" if m else "r") + R[i] for i, m in views), idx)
                code = "\n".join([
                    "fn c_%d(ctx: &mut GridCtx) {" % idx,
                    "    struct S(Vec<u32>);",
                    "    impl System for S { type Views<'a> = view::Null; type Filter = filter::None; type ResourceViews<'a> = %s; type EntryViews<'a> = view::Null;" % vta,
                    "        fn run<'a, R, Q, I, E>(&mut self, qr: brood::query::Result<'a, R, Q, I, Self::ResourceViews<'a>, Self::EntryViews<'a>, E>) where R: brood::registry::ContainsViews<'a, Self::EntryViews<'a>, E>, I: Iterator<Item = Self::Views<'a>> { let result!(%s) = qr.resources; self.0 = vec![%s]; } }" % (pats, reads),
                    "    struct P(Vec<u32>);",
                    "    impl brood::system::ParSystem for P { type Views<'a> = view::Null; type Filter = filter::None; type ResourceViews<'a> = %s; type EntryViews<'a> = view::Null;" % vta,
                    "        fn run<'a, R, Q, I, E>(&mut self, qr: brood::query::Result<'a, R, Q, I, Self::ResourceViews<'a>, Self::EntryViews<'a>, E>) where R: brood::registry::ContainsViews<'a, Self::EntryViews<'a>, E>, I: ParallelIterator<Item = Self::Views<'a>> { let result!(%s) = qr.resources; self.0 = vec![%s]; } }" % (pats, reads),
                    '    run_res_case(ctx, "%s", &[%s], &|w, path| match path {' % (label, ", ".join("(%d, %s)" % (i, "true" if m else "false") for i, m in views)),
                    "        0 => { let result!(%s) = w.view_resources::<%s, _>(); vec![%s] }" % (pats, vt, reads),
                    "        1 => { let res = w.query(Query::<view::Null, filter::None, %s>::new()); let result!(%s) = res.resources; vec![%s] }" % (vt, pats, reads),
                    "        2 => { let res = w.par_query(Query::<(&A, view::Null), filter::None, %s>::new()); let result!(%s) = res.resources; vec![%s] }" % (vt, pats, reads),
                    "        3 => { let mut s = S(vec![]); w.run_system(&mut s); s.0 }",
                    "        _ => { let mut s = P(vec![]); w.run_par_system(&mut s); s.0 }",
                    "    });",
                    "}"])
                cases.append((label, code))
                idx += 1
    return cases

def write(prefix, cases, nshards):
    os.makedirs(OUT, exist_ok=True)
    written = set()
    for s in range(nshards):
        mine = cases[s::nshards]
        if not mine:
            continue
        fns = "\n".join(code for _, code in mine)
        table = ", ".join('("%s", %s as fn(&mut GridCtx))' % (label.replace('"', ""), code.split("(")[0].split()[1]) for label, code in mine)
        text = HEADER + fns + "\n\nfn main() {\n    shard_main(&[%s]);\n}\n" % table
        fn = "%s_%02d.rs" % (prefix, s)
        written.add(fn)
        path = os.path.join(OUT, fn)
        if not os.path.exists(path) or open(path).read() != text:
            open(path, "w").write(text)
    for f in os.listdir(OUT):
        if f.startswith(prefix + "_") and f not in written:
            os.remove(os.path.join(OUT, f))
    return sorted(f[:-3] for f in written)

def main():
    qc, qp = build(False)
    qe = build_entries(False)
    qr = build_res()
    res_bins = write("gr", qr, 4)
    meta = {"res": res_bins, "res_count": len(qr), "quick_seq": write("gq", qc, 16) + write("ge", qe, 8), "quick_par": write("gp", qp, 12), "quick_counts": [len(qc), len(qp), len(qe)]}
    if "--thorough" in sys.argv or os.environ.get("GRID_THOROUGH"):
        tc, tp = build(True)
        te = build_entries(True)
        meta["thorough_seq"] = write("gt", tc, 64) + write("gf", te, 32)
        meta["thorough_par"] = write("gu", tp, 16)
        meta["thorough_counts"] = [len(tc), len(tp), len(te)]
    mp = os.path.join(ROOT, "mc", "grid", "grid.json")
    old = json.load(open(mp)) if os.path.exists(mp) else {}
    old.update(meta)
    text = json.dumps(old, indent=1)
    if not os.path.exists(mp) or open(mp).read() != text:
        open(mp, "w").write(text)
    print("grid: quick %d seq + %d par + %d entries instantiations%s" % (len(qc), len(qp), len(qe), "; thorough %d + %d + %d" % tuple(meta["thorough_counts"]) if "thorough_counts" in meta else ""))

if __name__ == "__main__":
    main()
