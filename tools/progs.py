#!/usr/bin/env python3
"""E6: bounded-exhaustive enumeration of program families for C14 (and the unsafe-constructor part of
C18).  The 'execution' is rustc type- and borrow-checking one generated program against the current
brood rlib (hooks on, features rayon+serde); the oracle is a small reference model of Rust's aliasing
and Send/Sync rules applied to the program's *description*.  Every must-reject program is paired
with a conflict-free twin that must compile.

usage: progs.py <evidence.json> <replay_dir> [--replay file]
prints FOUND lines; exit 0/1/2."""
import json, os, re, subprocess, sys, time, glob, hashlib
from concurrent.futures import ThreadPoolExecutor

ROOT = os.path.dirname(os.path.dirname(os.path.abspath(__file__)))
MC = os.path.join(ROOT, "mc")
TARGET = os.path.join(ROOT, "target")
WORK = os.path.join(TARGET, "progs")

PRELUDE = """#![allow(unused, dead_code, non_snake_case)]
use brood::{entities, entity, query::{filter, result, Result, Views}, registry, resources,
            system::{schedule, schedule::task, ParSystem, System}, Entity, Query, Registry, Resources, World};
use rayon::iter::ParallelIterator;
use std::{cell::Cell, rc::Rc, sync::Arc};
pub struct A(pub u32);
pub struct B(pub u32);
pub struct C(pub u32);
pub struct D(pub u32);          // never in a registry
pub struct NS(pub Rc<u32>);     // neither Send nor Sync
pub struct NY(pub Cell<u32>);   // Send, not Sync
pub struct OK(pub Arc<u32>);    // Send + Sync
pub struct R1(pub u32);
pub struct R2(pub u32);
pub struct RX(pub u32);         // never in a resource list
pub struct RNS(pub Rc<u32>);
pub struct ROK(pub Arc<u32>);
pub struct RCELL(pub Cell<u32>);   // Send, not Sync
pub struct SN(pub std::sync::MutexGuard<'static, u32>);   // Sync, not Send
type Reg = Registry!(A, B, C);
type RegN = Registry!(A, NS, NY, OK);
fn touch<T>(_t: T) {}
"""

KINDS = {"r": "&{l}{c}", "w": "&{l}mut {c}", "o": "Option<&{l}{c}>", "p": "Option<&{l}mut {c}>"}
MUT = {"r": False, "w": True, "o": False, "p": True}


def vt(kind, comp, lt=""):
    return KINDS[kind].format(l=(lt + " ") if lt else "", c=comp)


def use_of(kind, var):
    """statement that uses the reference(s) behind `var` after both were obtained"""
    if kind in "rw":
        return "touch(&%s.0);" % var
    return "if let Some(x) = &%s { touch(&x.0); }" % var


PROGS = []  # dict(name, family, body, expect: 'reject'|'accept'|'dontcare', why, twin_of)


def add(name, family, body, expect, why, known=None):
    PROGS.append({"name": name, "family": family, "body": body, "expect": expect, "why": why, "known_key": known})


def pair_expect(k1, k2):
    if MUT[k1] or MUT[k2]:
        return "reject"
    return "dontcare"


def gen():
    ks = "rwop"
    # ---------------- F1: two views of one component in one Views!
    for k1 in ks:
        for k2 in ks:
            for ctx in ("query", "entry", "par"):
                def body(c2):
                    views = "Views!(%s, %s)" % (vt(k1, "A"), vt(k2, c2))
                    if ctx == "query":
                        return "pub fn f(world: &mut World<Reg>) { for result!(x, y) in world.query(Query::<%s>::new()).iter { %s %s } }" % (views, use_of(k1, "x"), use_of(k2, "y"))
                    if ctx == "entry":
                        return "pub fn f(world: &mut World<Reg>, id: entity::Identifier) { let mut e = world.entry(id).unwrap(); if let Some(result!(x, y)) = e.query(Query::<%s>::new()) { %s %s } }" % (views, use_of(k1, "x"), use_of(k2, "y"))
                    return "pub fn f(world: &mut World<Reg>) { world.par_query(Query::<%s>::new()).iter.for_each(|result!(x, y)| { %s %s }); }" % (views, use_of(k1, "x"), use_of(k2, "y"))
                add("f1_%s_%s%s" % (ctx, k1, k2), "F1 two views of one component (%s)" % ctx, body("A"), pair_expect(k1, k2), "views %s and %s of A in one Views!" % (k1, k2))
                add("f1_%s_%s%s_twin" % (ctx, k1, k2), "F1 twin", body("B"), "accept", "same with the second view on B")
    # ---------------- F2: iterator view vs entry view of the same component
    for k1 in ks:
        for k2 in ks:
            def body(c2):
                return ("pub fn f(world: &mut World<Reg>, id: entity::Identifier) { let mut res = world.query(Query::<Views!(%s), filter::None, Views!(), Views!(%s)>::new()); "
                        "for result!(x) in res.iter { if let Some(mut e) = res.entries.entry(id) { if let Some(result!(y)) = e.query(Query::<Views!(%s)>::new()) { %s %s } } } }"
                        % (vt(k1, "A"), vt(k2, c2), vt(k2, c2), use_of(k1, "x"), use_of(k2, "y")))
            add("f2_%s%s" % (k1, k2), "F2 iterator view vs entry view", body("A"), pair_expect(k1, k2), "iterator view %s and entry view %s of A" % (k1, k2))
            add("f2_%s%s_twin" % (k1, k2), "F2 twin", body("B"), "accept", "entry view on B")
    # the same conflict through every other way of pairing iterated views with entry views
    for k1 in ks:
        for k2 in ks:
            for ctx in ("par_query", "run_system", "run_par_system", "schedule_seq", "schedule_par"):
                def body(c2):
                    if ctx == "par_query":
                        return ("pub fn f(world: &mut World<Reg>, id: entity::Identifier) { let res = world.par_query(Query::<Views!(%s), filter::None, Views!(), Views!(%s)>::new()); let mut en = res.entries; "
                                "if let Some(mut e) = en.entry(id) { if let Some(result!(y)) = e.query(Query::<Views!(%s)>::new()) { %s } } res.iter.for_each(|result!(x)| { %s }); }"
                                % (vt(k1, "A"), vt(k2, c2), vt(k2, c2), use_of(k2, "y"), use_of(k1, "x")))
                    par = ctx in ("run_par_system", "schedule_par")
                    trait, itb = ("ParSystem", "ParallelIterator") if par else ("System", "Iterator")
                    sysdef = ("pub struct S; impl %s for S { type Views<'a> = Views!(%s); type Filter = filter::None; type ResourceViews<'a> = Views!(); type EntryViews<'a> = Views!(%s);\n"
                              "  fn run<'a, R, Q, I, E>(&mut self, qr: Result<'a, R, Q, I, Self::ResourceViews<'a>, Self::EntryViews<'a>, E>) where R: registry::ContainsViews<'a, Self::EntryViews<'a>, E>, I: %s<Item = Self::Views<'a>> { } }\n"
                              % (trait, vt(k1, "A", "'a"), vt(k2, c2, "'a"), itb))
                    if ctx == "run_system":
                        return sysdef + "pub fn f(world: &mut World<Reg>) { world.run_system(&mut S); }"
                    if ctx == "run_par_system":
                        return sysdef + "pub fn f(world: &mut World<Reg>) { world.run_par_system(&mut S); }"
                    return sysdef + "pub fn f(world: &mut World<Reg>) { let mut s = schedule!(%s(S)); world.run_schedule(&mut s); }" % ("task::ParSystem" if par else "task::System")
                add("f2_%s_%s%s" % (ctx, k1, k2), "F2 iterator view vs entry view (%s)" % ctx, body("A"), pair_expect(k1, k2), "views %s and entry view %s of A through %s" % (k1, k2, ctx))
                add("f2_%s_%s%s_twin" % (ctx, k1, k2), "F2 twin (%s)" % ctx, body("B"), "accept", "entry view on B")
    # ---------------- F3: two entry views of the same component
    for k1 in ks:
        for k2 in ks:
            def body(c2):
                return ("pub fn f(world: &mut World<Reg>, id: entity::Identifier) { let mut res = world.query(Query::<Views!(), filter::None, Views!(), Views!(%s, %s)>::new()); "
                        "if let Some(mut e) = res.entries.entry(id) { if let Some(result!(x, y)) = e.query(Query::<Views!(%s, %s)>::new()) { %s %s } } }"
                        % (vt(k1, "A"), vt(k2, c2), vt(k1, "A"), vt(k2, c2), use_of(k1, "x"), use_of(k2, "y")))
            add("f3_%s%s" % (k1, k2), "F3 two entry views", body("A"), pair_expect(k1, k2), "entry views %s and %s of A" % (k1, k2))
            add("f3_%s%s_twin" % (k1, k2), "F3 twin", body("B"), "accept", "second entry view on B")
    # ---------------- F9: sub-views requested from an Entries entry must be covered by the declared entry views
    for d in ks:
        for r_ in ks:
            def body(comp_decl, comp_req):
                return ("pub fn f(world: &mut World<Reg>, id: entity::Identifier) { let mut res = world.query(Query::<Views!(), filter::None, Views!(), Views!(%s)>::new()); "
                        "if let Some(mut e) = res.entries.entry(id) { if let Some(result!(y)) = e.query(Query::<Views!(%s)>::new()) { %s } } }"
                        % (vt(d, comp_decl), vt(r_, comp_req), use_of(r_, "y")))
            escalates = MUT[r_] and not MUT[d]
            add("f9_sub_%s_from_%s" % (r_, d), "F9 sub-view vs declared entry view", body("A", "A"), "reject" if escalates else "dontcare", "sub-view %s of A requested from declared entry view %s of A" % (r_, d))
            add("f9_undeclared_%s_from_%s" % (r_, d), "F9 sub-view of an undeclared component", body("A", "B"), "reject", "sub-view %s of B requested although only A is declared" % r_)
        def body2(k1, k2):
            return ("pub fn f(world: &mut World<Reg>, id: entity::Identifier) { let mut res = world.query(Query::<Views!(), filter::None, Views!(), Views!(%s)>::new()); "
                    "if let Some(mut e) = res.entries.entry(id) { if let Some(result!(x, y)) = e.query(Query::<Views!(%s, %s)>::new()) { %s %s } } }"
                    % (vt(d, "A"), vt(k1, "A"), vt(k2, "A"), use_of(k1, "x"), use_of(k2, "y")))
        for k1 in ks:
            for k2 in ks:
                add("f9_twice_%s%s_from_%s" % (k1, k2, d), "F9 one declared component requested twice", body2(k1, k2), "reject" if (MUT[k1] or MUT[k2]) else "dontcare", "sub-views %s and %s of A from one declared entry view %s" % (k1, k2, d))
    add("f9_twin", "F9 twin", "pub fn f(world: &mut World<Reg>, id: entity::Identifier) { let mut res = world.query(Query::<Views!(), filter::None, Views!(), Views!(&mut A, &B)>::new()); if let Some(mut e) = res.entries.entry(id) { if let Some(result!(x, y)) = e.query(Query::<Views!(&B, &mut A)>::new()) { x.0; y.0 = 1; } } }", "accept", "both declared components requested once, in another order")
    # ---------------- F4: two resource views of one resource
    for k1 in "rw":
        for k2 in "rw":
            for ctx in ("view_resources", "query", "system"):
                def body(r2):
                    rv = "Views!(%s, %s)" % (vt(k1, "R1"), vt(k2, r2))
                    if ctx == "view_resources":
                        return "pub fn f(world: &mut World<Reg, Resources!(R1, R2)>) { let result!(x, y) = world.view_resources::<%s, _>(); touch(&x.0); touch(&y.0); }" % rv
                    if ctx == "query":
                        return "pub fn f(world: &mut World<Reg, Resources!(R1, R2)>) { let res = world.query(Query::<Views!(), filter::None, %s>::new()); let result!(x, y) = res.resources; touch(&x.0); touch(&y.0); }" % rv
                    rvl = "Views!(%s, %s)" % (vt(k1, "R1", "'a"), vt(k2, r2, "'a"))
                    return ("pub struct S; impl System for S { type Views<'a> = Views!(); type Filter = filter::None; type ResourceViews<'a> = %s; type EntryViews<'a> = Views!();\n"
                            "  fn run<'a, R, Q, I, E>(&mut self, qr: Result<'a, R, Q, I, Self::ResourceViews<'a>, Self::EntryViews<'a>, E>) where R: registry::ContainsViews<'a, Self::EntryViews<'a>, E>, I: Iterator<Item = Self::Views<'a>> { let result!(x, y) = qr.resources; touch(&x.0); touch(&y.0); } }\n"
                            "pub fn f(world: &mut World<Reg, Resources!(R1, R2)>) { world.run_system(&mut S); }" % rvl)
                add("f4_%s_%s%s" % (ctx, k1, k2), "F4 two resource views (%s)" % ctx, body("R1"), pair_expect(k1, k2), "resource views %s and %s of R1" % (k1, k2))
                add("f4_%s_%s%s_twin" % (ctx, k1, k2), "F4 twin", body("R2"), "accept", "second view on R2")
    # ---------------- F5: repeated single-entity access
    for k1 in "rw":
        for k2 in "rw":
            exp = pair_expect(k1, k2)
            q1, q2 = "Query::<Views!(%s)>::new()" % vt(k1, "A"), "Query::<Views!(%s)>::new()" % vt(k2, "A")
            q2b = "Query::<Views!(%s)>::new()" % vt(k2, "B")
            # a) World::entry(id).query twice on one Entry
            for twin in (False, True):
                qq = q2b if twin else q2
                add("f5a_%s%s%s" % (k1, k2, "_twin" if twin else ""), "F5a World::entry queried twice" + (" twin" if twin else ""),
                    "pub fn f(world: &mut World<Reg>, id: entity::Identifier) { let mut e = world.entry(id).unwrap(); let x = e.query(%s).unwrap(); let y = e.query(%s).unwrap(); touch(&x.0 .0); touch(&y.0 .0); }" % (q1, qq),
                    "dontcare" if twin else exp, "one world Entry queried twice, both results used")
            # b) one query::Entries entry queried twice
            ev = "Views!(%s)" % vt("w" if "w" in (k1, k2) else "r", "A")
            for twin in (False, True):
                evt = "Views!(%s, %s)" % (vt("w" if k1 == "w" else "r", "A"), vt("w" if k2 == "w" else "r", "B"))
                add("f5b_%s%s%s" % (k1, k2, "_twin" if twin else ""), "F5b one Entries entry queried twice" + (" twin" if twin else ""),
                    ("pub fn f(world: &mut World<Reg>, id: entity::Identifier) { let mut res = world.query(Query::<Views!(), filter::None, Views!(), %s>::new()); let mut e = res.entries.entry(id).unwrap(); "
                     "let x = e.query(%s).unwrap(); let y = e.query(%s).unwrap(); touch(&x.0 .0); touch(&y.0 .0); }") % (evt if twin else ev, q1, q2b if twin else q2),
                    "dontcare" if twin else exp, "one query-time entry queried twice, both results used", known=None if twin else "family=entries-requery kinds=%s%s" % (k1, k2))
            # c) Entries::entry twice
            add("f5c_%s%s" % (k1, k2), "F5c Entries::entry twice",
                ("pub fn f(world: &mut World<Reg>, id: entity::Identifier) { let mut res = world.query(Query::<Views!(), filter::None, Views!(), %s>::new()); "
                 "let x = { let mut e1 = res.entries.entry(id).unwrap(); e1.query(%s).unwrap() }; let y = { let mut e2 = res.entries.entry(id).unwrap(); e2.query(%s).unwrap() }; touch(&x.0 .0); touch(&y.0 .0); }") % (ev, q1, q2),
                exp, "two query-time entries for one identifier, both results used", known="family=entries-reentry kinds=%s%s" % (k1, k2))
            # d) World::entry twice
            add("f5d_%s%s" % (k1, k2), "F5d World::entry twice",
                "pub fn f(world: &mut World<Reg>, id: entity::Identifier) { let mut e1 = world.entry(id).unwrap(); let mut e2 = world.entry(id).unwrap(); let x = e1.query(%s).unwrap(); let y = e2.query(%s).unwrap(); touch(&x.0 .0); touch(&y.0 .0); }" % (q1, q2),
                "reject", "two live world entries")
            # e) a query iterator result kept while a second query runs
            add("f5e_%s%s" % (k1, k2), "F5e two queries alive",
                "pub fn f(world: &mut World<Reg>) { let mut i1 = world.query(%s).iter; let x = i1.next().unwrap(); let mut i2 = world.query(%s).iter; let y = i2.next().unwrap(); touch(&x.0 .0); touch(&y.0 .0); }" % (q1, q2),
                "reject", "results of two queries alive together")
    add("f5e_twin", "F5e twin", "pub fn f(world: &mut World<Reg>) { let x = world.query(Query::<Views!(&A)>::new()).iter.count(); let y = world.query(Query::<Views!(&mut A)>::new()).iter.count(); touch(x + y); }", "accept", "sequential queries")
    add("f5d_twin", "F5d twin", "pub fn f(world: &mut World<Reg>, id: entity::Identifier) { { let mut e1 = world.entry(id).unwrap(); e1.add(A(1)); } let mut e2 = world.entry(id).unwrap(); e2.remove::<A, _>(); }", "accept", "sequential entries")
    # ---------------- F5f: borrows handed out by the world end before the world is used again
    life = {
        "insert_while_iterating": "pub fn f(world: &mut World<Reg>) { let it = world.query(Query::<Views!(&A)>::new()).iter; world.insert(entity!(A(1))); for result!(a) in it { touch(&a.0); } }",
        "remove_while_iterating": "pub fn f(world: &mut World<Reg>, id: entity::Identifier) { let it = world.query(Query::<Views!(&mut A)>::new()).iter; world.remove(id); for result!(a) in it { a.0 = 1; } }",
        "clear_while_entries_alive": "pub fn f(world: &mut World<Reg>, id: entity::Identifier) { let mut res = world.query(Query::<Views!(), filter::None, Views!(), Views!(&mut A)>::new()); world.clear(); touch(res.entries.entry(id).is_some()); }",
        "entry_add_while_iterating": "pub fn f(world: &mut World<Reg>, id: entity::Identifier) { let it = world.query(Query::<Views!(&A)>::new()).iter; world.entry(id).unwrap().add(B(1)); for result!(a) in it { touch(&a.0); } }",
        "component_ref_outlives_removal": "pub fn f(world: &mut World<Reg>, id: entity::Identifier) { let r: &A = { let mut e = world.entry(id).unwrap(); let result!(a) = e.query(Query::<Views!(&A)>::new()).unwrap(); a }; world.remove(id); touch(&r.0); }",
        "component_ref_outlives_world": "pub fn f() -> &'static A { let mut world = World::<Reg>::new(); let id = world.insert(entity!(A(1))); let mut e = world.entry(id).unwrap(); let result!(a) = e.query(Query::<Views!(&A)>::new()).unwrap(); a }",
        "get_while_get_mut": "pub fn f(world: &mut World<Reg, Resources!(R1)>) { let r = world.get::<R1, _>(); world.get_mut::<R1, _>().0 = 1; touch(&r.0); }",
        "resource_view_while_get": "pub fn f(world: &mut World<Reg, Resources!(R1)>) { let result!(x) = world.view_resources::<Views!(&mut R1), _>(); let y = world.get::<R1, _>(); x.0 = 1; touch(&y.0); }",
        "query_resource_view_while_get_mut": "pub fn f(world: &mut World<Reg, Resources!(R1)>) { let res = world.query(Query::<Views!(), filter::None, Views!(&R1)>::new()); let result!(x) = res.resources; world.get_mut::<R1, _>().0 = 1; touch(&x.0); }",
        "world_entry_while_query": "pub fn f(world: &mut World<Reg>, id: entity::Identifier) { let mut e = world.entry(id).unwrap(); let n = world.query(Query::<Views!(&A)>::new()).iter.count(); e.add(A(1)); touch(n); }",
        "schedule_while_iterating": "pub struct S0; impl System for S0 { type Views<'a> = Views!(&'a mut A); type Filter = filter::None; type ResourceViews<'a> = Views!(); type EntryViews<'a> = Views!();\n  fn run<'a, R, Q, I, E>(&mut self, qr: Result<'a, R, Q, I, Self::ResourceViews<'a>, Self::EntryViews<'a>, E>) where R: registry::ContainsViews<'a, Self::EntryViews<'a>, E>, I: Iterator<Item = Self::Views<'a>> { } }\npub fn f(world: &mut World<Reg>) { let it = world.query(Query::<Views!(&A)>::new()).iter; let mut s = schedule!(task::System(S0)); world.run_schedule(&mut s); for result!(a) in it { touch(&a.0); } }",
        "par_iter_item_escapes": "pub fn f(world: &mut World<Reg>) { let v: Vec<&mut A> = world.par_query(Query::<Views!(&mut A)>::new()).iter.map(|result!(a)| a).collect(); world.clear(); for a in v { a.0 = 1; } }",
    }
    life["schedule_with_static_views"] = ("pub struct KS(pub Vec<&'static A>); impl System for KS { type Views<'a> = Views!(&'static A); type Filter = filter::None; type ResourceViews<'a> = Views!(); type EntryViews<'a> = Views!();\n"
        "  fn run<'a, R, Q, I, E>(&mut self, qr: Result<'a, R, Q, I, Self::ResourceViews<'a>, Self::EntryViews<'a>, E>) where R: registry::ContainsViews<'a, Self::EntryViews<'a>, E>, I: Iterator<Item = Self::Views<'a>> { for result!(a) in qr.iter { self.0.push(a); } } }\n"
        "pub fn f(world: &mut World<Reg>) { let s = Box::leak(Box::new(schedule!(task::System(KS(Vec::new()))))); world.run_schedule(s); }")
    life["schedule_leaked_keeps_views"] = ("pub struct KL<'s>(pub Vec<&'s A>); impl<'s> System for KL<'s> { type Views<'a> = Views!(&'a A); type Filter = filter::None; type ResourceViews<'a> = Views!(); type EntryViews<'a> = Views!();\n"
        "  fn run<'a, R, Q, I, E>(&mut self, qr: Result<'a, R, Q, I, Self::ResourceViews<'a>, Self::EntryViews<'a>, E>) where R: registry::ContainsViews<'a, Self::EntryViews<'a>, E>, I: Iterator<Item = Self::Views<'a>> { for result!(a) in qr.iter { self.0.push(a); } } }\n"
        "pub fn f(world: &mut World<Reg>) { let s = Box::leak(Box::new(schedule!(task::System(KL(Vec::new()))))); world.run_schedule(s); }")
    for name, body in life.items():
        add("f5f_" + name, "F5f borrow outlives the next use of the world", body, "reject", name.replace("_", " "))
    add("f5f_twin", "F5f twin", "pub fn f(world: &mut World<Reg, Resources!(R1)>, id: entity::Identifier) { { let it = world.query(Query::<Views!(&A)>::new()).iter; for result!(a) in it { touch(&a.0); } } world.insert(entity!(A(1))); world.remove(id); let r = world.get::<R1, _>().0; world.get_mut::<R1, _>().0 = r; let v: Vec<&mut A> = world.par_query(Query::<Views!(&mut A)>::new()).iter.map(|result!(a)| a).collect(); for a in v { a.0 = 1; } world.clear(); }", "accept", "the same uses, each borrow ended first")
    # ---------------- F6: component / resource outside the registry
    f6 = {
        "insert": ("world.insert(entity!(A(1), {c}(2)));", "B"),
        "extend": ("world.extend(entities!((A(1), {c}(2)), (A(3), {c}(4))));", "B"),
        "query": ("for result!(x) in world.query(Query::<Views!(&{c})>::new()).iter {{ touch(&x.0); }}", "B"),
        "query_opt": ("for result!(x) in world.query(Query::<Views!(Option<&{c}>)>::new()).iter {{ touch(x.is_some()); }}", "B"),
        "query_filter": ("touch(world.query(Query::<Views!(&A), filter::Has<{c}>>::new()).iter.count());", "B"),
        "par_query": ("world.par_query(Query::<Views!(&{c})>::new()).iter.for_each(|result!(x)| touch(&x.0));", "B"),
        "entry_add": ("world.entry(id).unwrap().add({c}(3));", "B"),
        "entry_remove": ("world.entry(id).unwrap().remove::<{c}, _>();", "B"),
        "entry_query": ("touch(world.entry(id).unwrap().query(Query::<Views!(&{c})>::new()).is_some());", "B"),
        "reserve": ("world.reserve::<Entity!(A, {c}), _>(2);", "B"),
        "entry_views": ("let mut res = world.query(Query::<Views!(), filter::None, Views!(), Views!(&{c})>::new()); touch(res.entries.entry(id).is_some());", "B"),
    }
    for name, (stmt, ok) in f6.items():
        for twin in (False, True):
            add("f6_%s%s" % (name, "_twin" if twin else ""), "F6 component outside the registry" + (" twin" if twin else ""),
                "pub fn f(world: &mut World<Reg>, id: entity::Identifier) { %s }" % stmt.format(c=ok if twin else "D"), "accept" if twin else "reject", "component D is not in Registry!(A, B, C)")
    f6r = {"get": "touch(&world.get::<{r}, _>().0);", "get_mut": "world.get_mut::<{r}, _>().0 = 1;", "view_resources": "let result!(x) = world.view_resources::<Views!(&{r}), _>(); touch(&x.0);",
           "query_res": "let res = world.query(Query::<Views!(), filter::None, Views!(&mut {r})>::new()); let result!(x) = res.resources; x.0 = 1;"}
    for name, stmt in f6r.items():
        for twin in (False, True):
            add("f6r_%s%s" % (name, "_twin" if twin else ""), "F6 resource outside the resource list" + (" twin" if twin else ""),
                "pub fn f(world: &mut World<Reg, Resources!(R1, R2)>) { %s }" % stmt.format(r="R2" if twin else "RX"), "accept" if twin else "reject", "resource RX is not in Resources!(R1, R2)")
    # ---------------- F7: thread crossing with non-Send / non-Sync payloads
    def thread_prog(name, fam, mk, why, known=None, also_ny=True):
        """mk(comp) -> program text; comp in NS (reject), NY (reject when shared by reference), OK (twin accept)"""
        add(name + "_ns", fam, mk("NS"), "reject", why + " with an Rc payload", known=known)
        add(name + "_twin", fam + " twin", mk("OK"), "accept", why + " with an Arc payload")

    thread_prog("f7_move_world", "F7 move a world to a thread", lambda c: "pub fn f(world: World<Registry!(A, %s)>) { std::thread::spawn(move || drop(world)); }" % c, "World moved into a spawned thread")
    thread_prog("f7_share_world", "F7 share a world between threads", lambda c: "pub fn f(world: &World<Registry!(A, %s)>) { std::thread::scope(|s| { s.spawn(|| touch(world.len())); }); }" % c, "&World used from a scoped thread")
    add("f7_move_world_sn", "F7 move a world to a thread", "pub fn f(world: World<Registry!(A, SN)>) { std::thread::spawn(move || drop(world)); }", "reject", "World with a Sync-but-not-Send component moved")
    add("f7_share_world_sn_twin", "F7 share a world between threads twin", "pub fn f(world: &World<Registry!(A, SN)>) { std::thread::scope(|s| { s.spawn(|| touch(world.len())); }); }", "accept", "&World with Sync components shared")
    add("f7_share_world_ny", "F7 share a world between threads", "pub fn f(world: &World<Registry!(A, NY)>) { std::thread::scope(|s| { s.spawn(|| touch(world.len())); }); }", "reject", "&World with a Send-but-not-Sync component shared")
    add("f7_move_world_ny_twin", "F7 move a world to a thread twin", "pub fn f(world: World<Registry!(A, NY)>) { std::thread::spawn(move || drop(world)); }", "accept", "World with Send components moved")
    add("f7_share_world_res_ny", "F7 share a world between threads", "pub struct RNY(pub Cell<u32>); pub fn f(world: &World<Reg, Resources!(R1, RNY)>) { std::thread::scope(|s| { s.spawn(|| touch(world.len())); }); }", "reject", "&World with a Send-but-not-Sync resource shared")
    add("f7_share_world_res_ns", "F7 share a world between threads", "pub fn f(world: &World<Reg, Resources!(R1, RNS)>) { std::thread::scope(|s| { s.spawn(|| touch(world.len())); }); }", "reject", "&World with an Rc resource shared")
    add("f7_share_world_res_twin", "F7 share a world between threads twin", "pub fn f(world: &World<Reg, Resources!(R1, ROK)>) { std::thread::scope(|s| { s.spawn(|| touch(world.len())); }); }", "accept", "&World with an Arc resource shared")
    add("f7_move_world_res_ny_twin", "F7 move a world (resource payload) twin", "pub struct RNY(pub Cell<u32>); pub fn f(world: World<Reg, Resources!(R1, RNY)>) { std::thread::spawn(move || drop(world)); }", "accept", "World with a Send resource moved")
    add("f7_get_res_ny_shared", "F7 share a world between threads", "pub struct RNY(pub Cell<u32>); pub fn f(world: &World<Reg, Resources!(RNY)>) { std::thread::scope(|s| { s.spawn(|| world.get::<RNY, _>().0.set(1)); s.spawn(|| world.get::<RNY, _>().0.set(2)); }); }", "reject", "a Cell resource mutated from two threads through &World")
    thread_prog("f7_move_world_res", "F7 move a world (resource payload)", lambda c: "pub fn f(world: World<Reg, Resources!(R1, %s)>) { std::thread::spawn(move || drop(world)); }" % ("RNS" if c == "NS" else "ROK"), "World with a resource moved into a thread")
    for k in "rwop":
        def mk(c, k=k):
            return ("pub fn f(world: &mut World<Registry!(A, %s)>) { let res = world.query(Query::<Views!(%s)>::new()); let it = res.iter; "
                    "std::thread::scope(|s| { s.spawn(move || { for result!(x) in it { touch(x); } }); }); }") % (c, vt(k, c))
        thread_prog("f7_iter_%s" % k, "F7 send a query iterator to a thread", mk, "result::Iter over %s sent to a scoped thread" % k, known="family=iter-send kind=%s" % k)
        def mk2(c, k=k):
            return ("pub fn f(world: &mut World<Registry!(A, %s)>, id: entity::Identifier) { let res = world.query(Query::<Views!(), filter::None, Views!(), Views!(%s)>::new()); let mut en = res.entries; "
                    "std::thread::scope(|s| { s.spawn(move || { if let Some(mut e) = en.entry(id) { if let Some(result!(x)) = e.query(Query::<Views!(%s)>::new()) { touch(x); } } }); }); }") % (c, vt(k, c), vt(k, c))
        thread_prog("f7_entries_%s" % k, "F7 send an Entries handle to a thread", mk2, "query::Entries with entry view %s sent to a scoped thread" % k, known="family=entries-send kind=%s" % k)
        def mk3(c, k=k):
            return "pub fn f(world: &mut World<Registry!(A, %s)>) { world.par_query(Query::<Views!(%s)>::new()).iter.for_each(|result!(x)| touch(x)); }" % (c, vt(k, c))
        thread_prog("f7_par_query_%s" % k, "F7 par_query", mk3, "par_query with view %s" % k)
        # Send-but-not-Sync payload (a Cell): shared views (&, Option<&>) must not cross threads, exclusive views may
        shared = k in "ro"
        add("f7_iter_%s_ny%s" % (k, "" if shared else "_twin"), "F7 send a query iterator to a thread (Send, not Sync payload)" + ("" if shared else " twin"), mk("NY"), "reject" if shared else "accept", "result::Iter over %s of a Cell component sent to a scoped thread" % k)
        add("f7_entries_%s_ny%s" % (k, "" if shared else "_twin"), "F7 send an Entries handle to a thread (Send, not Sync payload)" + ("" if shared else " twin"), mk2("NY"), "reject" if shared else "accept", "query::Entries with entry view %s of a Cell component sent to a scoped thread" % k)
        add("f7_par_query_%s_ny%s" % (k, "" if shared else "_twin"), "F7 par_query (Send, not Sync payload)" + ("" if shared else " twin"), mk3("NY"), "reject" if shared else "accept", "par_query with view %s of a Cell component" % k)
        # Sync-but-not-Send payload (a MutexGuard): exclusive views (&mut, Option<&mut>) must not cross threads, shared views may
        excl = k in "wp"
        add("f7_iter_%s_sn%s" % (k, "" if excl else "_twin"), "F7 send a query iterator to a thread (Sync, not Send payload)" + ("" if excl else " twin"), mk("SN"), "reject" if excl else "accept", "result::Iter over %s of a MutexGuard component sent to a scoped thread" % k)
        add("f7_entries_%s_sn%s" % (k, "" if excl else "_twin"), "F7 send an Entries handle to a thread (Sync, not Send payload)" + ("" if excl else " twin"), mk2("SN"), "reject" if excl else "accept", "query::Entries with entry view %s of a MutexGuard component sent to a scoped thread" % k)
        add("f7_par_query_%s_sn%s" % (k, "" if excl else "_twin"), "F7 par_query (Sync, not Send payload)" + ("" if excl else " twin"), mk3("SN"), "reject" if excl else "accept", "par_query with view %s of a MutexGuard component" % k)
        def mk2b(c, k=k):
            # the handle is shared by reference between two threads (needs Entries: Sync)
            return ("pub fn f(world: &mut World<Registry!(A, %s)>) { let res = world.query(Query::<Views!(), filter::None, Views!(), Views!(%s)>::new()); let en = &res.entries; "
                    "std::thread::scope(|s| { s.spawn(move || { touch(en); }); }); }") % (c, vt(k, c))
        thread_prog("f7_entries_shared_%s" % k, "F7 share an Entries handle between threads", mk2b, "&query::Entries with entry view %s used from a scoped thread" % k)
        if shared:
            add("f7_entries_shared_%s_ny" % k, "F7 share an Entries handle between threads (Send, not Sync payload)", mk2b("NY"), "reject", "&query::Entries with entry view %s of a Cell component used from a scoped thread" % k)
    for k in "rw":
        def mk(c, k=k):
            r = "RNS" if c == "NS" else "ROK"
            return ("pub fn f(world: &mut World<Reg, Resources!(R1, %s)>) { let res = world.query(Query::<Views!(), filter::None, Views!(%s)>::new()); let rv = res.resources; "
                    "std::thread::scope(|s| { s.spawn(move || { let result!(x) = rv; touch(x); }); }); }") % (r, vt(k, r))
        thread_prog("f7_resviews_%s" % k, "F7 send resource views to a thread", mk, "resource views (%s) sent to a scoped thread" % k)
        def mk4(c, k=k):
            r = "RNS" if c == "NS" else "ROK"
            return ("pub fn f(world: &mut World<Reg, Resources!(R1, %s)>) { let res = world.par_query(Query::<Views!(&A), filter::None, Views!(%s)>::new()); let result!(x) = res.resources; res.iter.for_each(|result!(a)| touch(&a.0)); touch(x); }") % (r, vt(k, r))
        add("f7_par_query_res_%s_twin" % k, "F7 par_query with resource views twin", mk4("OK"), "accept", "par_query with Arc resource view")

    for k in "rw":
        def mk5(c, k=k):
            r = "RNS" if c == "NS" else "ROK"
            return "pub fn f(world: &mut World<Reg, Resources!(R1, %s)>) { let res = world.par_query(Query::<Views!(&A), filter::None, Views!(%s)>::new()); let result!(x) = res.resources; res.iter.for_each(|result!(a)| { touch(&a.0); touch(&x.0); }); }" % (r, vt(k, r))
        add("f7_par_query_res_used_%s_ns" % k, "F7 par_query closure uses a resource view", mk5("NS"), "reject" if k == "r" else "dontcare", "resource view (%s) of an Rc resource captured by the parallel closure" % k)
    # whole query result and world entries sent to another thread
    thread_prog("f7_result_whole", "F7 send a whole query result to a thread",
                lambda c: "pub fn f(world: &mut World<Registry!(A, %s)>) { let res = world.query(Query::<Views!(&%s), filter::None, Views!(), Views!(&A)>::new()); std::thread::scope(|s| { s.spawn(move || { let res = res; for result!(x) in res.iter { touch(x); } }); }); }" % (c, c),
                "query::Result moved to a scoped thread")
    thread_prog("f7_world_entry", "F7 send a world entry to a thread",
                lambda c: "pub fn f(world: &mut World<Registry!(A, %s)>, id: entity::Identifier) { let mut e = world.entry(id).unwrap(); std::thread::scope(|s| { s.spawn(move || { if let Some(result!(x)) = e.query(Query::<Views!(&%s)>::new()) { touch(x); } }); }); }" % (c, c),
                "world::Entry moved to a scoped thread")
    thread_prog("f7_par_system_field", "F7 run_par_system with captured state",
                lambda c: "pub fn f(world: &mut World<Registry!(A, %s)>) { let shared = %s; world.par_query(Query::<Views!(&A)>::new()).iter.for_each(|result!(a)| { touch(&a.0); touch(&shared); }); }" % (c, "Rc::new(1u32)" if c == "NS" else "Arc::new(1u32)"),
                "non-Sync state captured by a parallel query closure")

    def system_prog(par, views, resv, entv, field, reg, res):
        trait, itb = ("ParSystem", "ParallelIterator") if par else ("System", "Iterator")
        return ("pub struct S(%s); impl %s for S { type Views<'a> = %s; type Filter = filter::None; type ResourceViews<'a> = %s; type EntryViews<'a> = %s;\n"
                "  fn run<'a, R, Q, I, E>(&mut self, qr: Result<'a, R, Q, I, Self::ResourceViews<'a>, Self::EntryViews<'a>, E>) where R: registry::ContainsViews<'a, Self::EntryViews<'a>, E>, I: %s<Item = Self::Views<'a>> { } }\n"
                % (field, trait, views, resv, entv, itb))

    def sched(c, what, par):
        r = "RNS" if c == "NS" else "ROK"
        views = "Views!(&'a %s)" % c if what == "views" else "Views!(&'a A)"
        resv = "Views!(&'a %s)" % r if what == "res" else "Views!()"
        entv = "Views!(&'a %s)" % c if what == "entry" else "Views!()"
        field = ("Rc<u32>" if c == "NS" else "Arc<u32>") if what == "field" else "u32"
        init = ("Rc::new(1)" if c == "NS" else "Arc::new(1)") if what == "field" else "1"
        task_ = "task::ParSystem" if par else "task::System"
        return system_prog(par, views, resv, entv, field, c, r) + \
            "pub fn f(world: &mut World<Registry!(A, %s), Resources!(R1, %s)>) { let mut s = schedule!(%s(S(%s))); world.run_schedule(&mut s); }" % (c, r, task_, init)
    for what in ("views", "res", "entry", "field"):
        for par in (False, True):
            thread_prog("f7_sched_%s_%s" % (what, "par" if par else "seq"), "F7 schedule task", lambda c, what=what, par=par: sched(c, what, par), "schedule task whose %s are not thread safe" % what)
    for par in (False, True):
        add("f7_sched_views_%s_ny" % ("par" if par else "seq"), "F7 schedule task (Send, not Sync payload)", sched("NY", "views", par), "reject", "schedule task with a shared view of a Cell component")
        add("f7_sched_entry_%s_ny" % ("par" if par else "seq"), "F7 schedule task (Send, not Sync payload)", sched("NY", "entry", par), "reject", "schedule task with a shared entry view of a Cell component")
    for par in (False, True):
        for k in "rw":
            def sres(r, k=k, par=par):
                task_ = "task::ParSystem" if par else "task::System"
                return system_prog(par, "Views!(&'a A)", "Views!(%s)" % vt(k, r, "'a"), "Views!()", "u32", "OK", r) + \
                    "pub fn f(world: &mut World<Registry!(A, OK), Resources!(R1, %s)>) { let mut s = schedule!(%s(S(1))); world.run_schedule(&mut s); }" % (r, task_)
            nm = "f7_sched_res_%s_%s_cell" % (k, "par" if par else "seq")
            if k == "r":
                add(nm, "F7 schedule task (Send, not Sync resource)", sres("RCELL"), "reject", "schedule task with a shared view of a Cell resource")
            else:
                add(nm + "_twin", "F7 schedule task (Send, not Sync resource) twin", sres("RCELL"), "accept", "schedule task with an exclusive view of a Cell resource")
    def runsys_res(r, par):
        return system_prog(par, "Views!(&'a A)", "Views!(&'a %s)" % r, "Views!()", "u32", "OK", r) + \
            "pub fn f(world: &mut World<Registry!(A, OK), Resources!(R1, %s)>) { world.%s(&mut S(1)); }" % (r, "run_par_system" if par else "run_system")
    add("f7_run_par_system_res_cell", "F7 run_par_system (Send, not Sync resource)", runsys_res("RCELL", True), "dontcare", "ParSystem with a shared view of a Cell resource (the resource views stay on the calling thread)")
    add("f7_run_system_res_cell_twin", "F7 run_system (Send, not Sync resource) twin", runsys_res("RCELL", False), "accept", "sequential system with a shared view of a Cell resource")
    def parsys(c):
        return system_prog(True, "Views!(&'a %s)" % c, "Views!()", "Views!()", "u32", c, "") + "pub fn f(world: &mut World<Registry!(A, %s)>) { world.run_par_system(&mut S(1)); }" % c
    thread_prog("f7_run_par_system", "F7 run_par_system", parsys, "ParSystem viewing a non-thread-safe component")
    # ---------------- C18 helper: Batch::new_unchecked needs unsafe
    add("c18_new_unchecked_safe", "C18 unsafe constructor", "pub fn f() { let b = brood::entities::Batch::new_unchecked((vec![A(1)], (vec![B(1), B(2)], brood::entities::Null))); touch(b); }", "reject", "Batch::new_unchecked called outside unsafe")
    add("c18_new_unchecked_twin", "C18 unsafe constructor twin", "pub fn f() { let b = unsafe { brood::entities::Batch::new_unchecked((vec![A(1)], (vec![B(1)], brood::entities::Null))) }; touch(b); }", "accept", "inside unsafe")


    # the columns of a batch are private: safe code cannot make them ragged after construction
    BT = "brood::entities::Batch<(Vec<A>, (Vec<B>, brood::entities::Null))>"
    add("c18_batch_columns_private", "C18 batch invariant", "pub fn f(mut b: %s) { b.entities.0.push(A(1)); touch(b); }" % BT, "reject", "a batch column lengthened through a public field")
    add("c18_batch_columns_private_read", "C18 batch invariant", "pub fn f(b: %s) -> usize { b.entities.0.len() }" % BT, "dontcare", "a batch column read through a field")
    add("c18_batch_struct_literal", "C18 batch invariant", "pub fn f() { let b = brood::entities::Batch { entities: (vec![A(1)], (vec![B(1), B(2)], brood::entities::Null)), len: 1 }; touch(b); }", "reject", "a batch built with a struct literal")
    add("c18_batch_columns_twin", "C18 batch invariant twin", "pub fn f(b: %s, world: &mut World<Reg>) { touch(world.extend(b)); }" % BT, "accept", "a batch passed on unchanged")
    add("c18_identifier_forged", "C18 identifier fields", "pub fn f() -> entity::Identifier { entity::Identifier { index: 0, generation: 0 } }", "dontcare", "an identifier built with a struct literal")

OK_CODES = {"E0277", "E0499", "E0502", "E0505", "E0597", "E0599", "E0271", "E0308", "E0282", "E0283", "E0284", "E0133", "E0716", "E0506", "E0503", "E0382", "E0521", "E0373", "E0275", "E0616", "E0451", "E0560", "E0063", "E0639", "E0515", "E0803"}


def artifacts():
    """(re)build brood with the harness profile and locate the rlibs"""
    r = subprocess.run(["cargo", "build", "--release", "--offline", "-p", "mccore", "--message-format=json"], cwd=MC, stdout=subprocess.PIPE, stderr=subprocess.PIPE, text=True,
                       env=dict(os.environ, CARGO_TARGET_DIR=TARGET, CARGO_NET_OFFLINE="true"))
    if r.returncode != 0:
        print(r.stderr[-4000:])
        print("MACHINERY-ERROR build failed")
        sys.exit(2)
    ext = {}
    for line in r.stdout.splitlines():
        try:
            j = json.loads(line)
        except Exception:
            continue
        if j.get("reason") == "compiler-artifact" and j["target"]["name"] in ("brood", "rayon"):
            for f in j["filenames"]:
                if f.endswith(".rlib"):
                    ext[j["target"]["name"]] = f
    return ext


WITNESS = PRELUDE + """
pub fn main() {
    // run-time witness for the entries-requery family: two simultaneously usable references to one component
    let mut world = World::<Reg>::new();
    let id = world.insert(entity!(A(1), B(2)));
    let mut res = world.query(Query::<Views!(), filter::None, Views!(), Views!(&mut A)>::new());
    let mut e = res.entries.entry(id).unwrap();
    let result!(x) = e.query(Query::<Views!(&mut A)>::new()).unwrap();
    let result!(y) = e.query(Query::<Views!(&mut A)>::new()).unwrap();
    let (px, py) = (x as *mut A as usize, y as *mut A as usize);
    x.0 += 10;
    y.0 += 100;
    println!("WITNESS two live &mut A: {:#x} and {:#x} (same address: {}), value now {}", px, py, px == py, x.0);
}
"""


def run_witness(ext):
    src = os.path.join(WORK, "witness.rs")
    exe = os.path.join(WORK, "witness")
    open(src, "w").write(WITNESS)
    cmd = ["rustc", "--edition", "2021", "--crate-type", "bin", "--cfg", "brood_verif", "-o", exe, "--extern", "brood=" + ext["brood"], "--extern", "rayon=" + ext["rayon"],
           "-L", "dependency=" + os.path.join(TARGET, "release", "deps"), src]
    r = subprocess.run(cmd, stdout=subprocess.PIPE, stderr=subprocess.PIPE, text=True)
    if r.returncode != 0:
        return "witness program does not compile (the defect may be repaired): " + " ".join(sorted(set(re.findall(r"error\[(E\d+)\]", r.stderr))))
    r = subprocess.run([exe], stdout=subprocess.PIPE, stderr=subprocess.STDOUT, text=True)
    return r.stdout.strip()


def compile_one(p, ext):
    src = os.path.join(WORK, p["name"] + ".rs")
    open(src, "w").write(PRELUDE + p["body"] + "\n")
    cmd = ["rustc", "--edition", "2021", "--crate-type", "lib", "--emit=metadata", "--cfg", "brood_verif", "-o", os.path.join(WORK, p["name"] + ".rmeta"),
           "--extern", "brood=" + ext["brood"], "--extern", "rayon=" + ext["rayon"], "-L", "dependency=" + os.path.join(TARGET, "release", "deps"), "--error-format=short", src]
    r = subprocess.run(cmd, stdout=subprocess.PIPE, stderr=subprocess.PIPE, text=True)
    codes = sorted(set(re.findall(r"error\[(E\d+)\]", r.stderr)))
    return r.returncode == 0, codes, r.stderr


def main():
    ev_path, replay_dir = sys.argv[1], sys.argv[2]
    t0 = time.time()
    gen()
    os.makedirs(WORK, exist_ok=True)
    ext = artifacts()
    if "--replay" in sys.argv:
        j = json.load(open(sys.argv[sys.argv.index("--replay") + 1]))
        p = next(x for x in PROGS if x["name"] == j["program"])
        ok, codes, err = compile_one(p, ext)
        print(PRELUDE + p["body"])
        print("expected: %s; rustc: %s %s" % (p["expect"], "compiles" if ok else "rejected", codes))
        print(err[-3000:])
        bad = (p["expect"] == "reject" and ok) or (p["expect"] == "accept" and not ok)
        if bad:
            print("VIOLATION property=%s replay=%s" % (j.get("property", "C14"), sys.argv[sys.argv.index("--replay") + 1]))
        sys.exit(1 if bad else 0)
    with ThreadPoolExecutor(max_workers=16) as ex:
        results = list(ex.map(lambda p: compile_one(p, ext), PROGS))
    found, machinery = [], []
    stats = {"reject_expected": 0, "rejected": 0, "accept_expected": 0, "accepted": 0, "dontcare": 0, "dontcare_rejected": 0}
    codes_seen = {}
    fam = {}
    for p, (ok, codes, err) in zip(PROGS, results):
        f = fam.setdefault(p["family"].replace(" twin", ""), {"programs": 0, "must_reject": 0, "twins": 0})
        f["programs"] += 1
        if p["expect"] == "reject":
            f["must_reject"] += 1
            stats["reject_expected"] += 1
            if ok:
                found.append((p, "program that must be rejected compiles"))
            else:
                stats["rejected"] += 1
                for c in codes:
                    codes_seen[c] = codes_seen.get(c, 0) + 1
                # the borrow checker's region errors ("lifetime may not live long enough") carry no code
                if (not codes and "lifetime may not live long enough" not in err) or (codes and not set(codes) & OK_CODES):
                    machinery.append("program %s rejected for an unexpected reason %s: %s" % (p["name"], codes, err[-300:]))
        elif p["expect"] == "accept":
            f["twins"] += 1
            stats["accept_expected"] += 1
            if ok:
                stats["accepted"] += 1
            else:
                machinery.append("twin %s does not compile: %s %s" % (p["name"], codes, err[-600:]))
        else:
            stats["dontcare"] += 1
            stats["dontcare_rejected"] += (not ok)
    prop_of = lambda p: "C18" if p["name"].startswith("c18") else "C14"
    want = os.environ.get("PROGS_PROPERTY", "C14")
    os.makedirs(os.path.join(replay_dir, want), exist_ok=True)
    out = []
    for p, what in found:
        if prop_of(p) != want:
            continue
        key = p["known_key"] or ("wrongly-accepted program=%s" % p["name"])
        path = os.path.join(replay_dir, want, p["name"] + ".json")
        json.dump({"engine": "progs", "property": want, "program": p["name"], "family": p["family"], "why": p["why"], "key": key, "source": PRELUDE + p["body"]}, open(path, "w"), indent=1)
        print("FOUND property=%s key=%s replay=%s :: %s: %s" % (want, key.replace(" ", "_"), path, p["family"], p["why"]))
        out.append(key)
    witness = run_witness(ext) if want == "C14" and any(p["family"].startswith("F5b") for p, _ in found) else None
    if witness:
        print("note: " + witness)
    mine = [p for p in PROGS if prop_of(p) == want]
    ev = {"property_id": want, "tier": os.environ.get("PROGS_TIER", "quick"), "seed": int(os.environ.get("VERIF_SEED", "0") or 0), "level": "exploration",
          "coverage": {"evaluations": len(mine), "distinct_nontrivial": sum(1 for p in mine if p["expect"] == "reject"),
                       "rule": "one case = one generated program, type- and borrow-checked by rustc against the current brood rlib; families are full products (view-kind pairs x positions x contexts; thread-crossing APIs x payloads); non-trivial = programs the reference model says must be rejected (each paired with a conflict-free twin that must compile)",
                       "samples": [{"program": p["name"], "family": p["family"], "expect": p["expect"], "text": p["body"][:400]} for p in mine[:: max(1, len(mine) // 5)]][:6],
                       "programs": len(mine), "families": fam if want == "C14" else {}, "verdicts": stats if want == "C14" else {},
                       "rejecting_error_codes": codes_seen if want == "C14" else {}, "exhaustive": True, "found": out, "runtime_witness_for_entries_requery": witness},
          "assumptions": ["rustc's type and borrow checker is the transition function and is trusted", "says nothing about programs outside the generated families", "both-immutable duplicate views are don't-care (brood may reject them)"],
          "wall_s": round(time.time() - t0, 2), "violations": len(out)}
    json.dump(ev, open(ev_path, "w"), indent=1)
    print("config progs: %d programs (%d must-reject, %d twins, %d don't-care), rejected %d, wrongly accepted %d [%0.1fs]" % (len(PROGS), stats["reject_expected"], stats["accept_expected"], stats["dontcare"], stats["rejected"], len(found), time.time() - t0))
    for m in machinery:
        print("MACHINERY-ERROR " + m.replace("\n", " ")[:900])
    if machinery:
        sys.exit(2)
    sys.exit(1 if out else 0)


if __name__ == "__main__":
    main()
