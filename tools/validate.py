#!/usr/bin/env python3-vt
import json, sys, glob, jsonschema
jsonschema.validate(json.load(open('/verif/MANIFEST.json')), json.load(open('/root/.vp/MANIFEST.schema.json')))
print('manifest ok')
sch = json.load(open('/root/.vp/EVIDENCE.schema.json'))
for f in sorted(glob.glob('/verif/evidence/*.json')):
    try:
        jsonschema.validate(json.load(open(f)), sch); print(f, 'ok')
    except Exception as e:
        print(f, 'INVALID', str(e)[:300])
