#!/usr/bin/env python3
"""Regenerates /verif/MANIFEST.json from the table below (keeps the file schema-valid)."""
import json, os, subprocess
ROOT = os.path.dirname(os.path.dirname(os.path.abspath(__file__)))

GRID = "E2 generated query grid evaluated on a reachable-state catalogue (mc/grid, tools/gen_grid.py)"
FAULT = "E5 exhaustive fault enumeration on the real code (mc/fault): panic injection at every user-callback index / every single edit of every base serialization"
SCHED = "E3 stateless DFS over task orders of run_schedule through the fork/join seam H2 (mc/sched, generated schedule family)"
HIST = "E1 explicit-state BFS over operation histories on the real World (mc/hist)"
CHECKS = {
 "C01": ("model_checking", "§2 C01", HIST,
   "Every operation history up to the stated depth over 9 alphabets (incl. registries of no, exactly 8, 9, 10 and 64 components, and several operations through one Entry handle), from the empty world and from four prepared non-initial states (13 and 16 tables so that the table map grows and rehashes, emptied tables, a free list with several generations), is executed on the real World and compared after every operation with a plain map model through the public query API; exhaustive within the bounds reported in the evidence.",
   "registry S4=(Heap,Zst,Big,Small)+2 resources; depth bounds per alphabet; values abstracted from the state hash; rustc/std/hashbrown/serde trusted"),
 "C02": ("model_checking", "§2 C02", HIST,
   "Same exploration; after every operation every identifier ever issued in that history is re-queried (contains, entry, Entries::entry, stale remove); freshly issued identifiers are compared with the full issued list, across clone/clone_from/serde.",
   "generation wrap-around (2^64 reuses) not reachable; depth bounds as reported"),
 "C04": ("model_checking", "§2 C04", HIST,
   "Same exploration with a per-value drop ledger: after every operation the set of live values equals the set of values the worlds hold; after the final drop of every world nothing is alive and nothing was dropped twice.",
   "values are identified by serial numbers carried by the harness component types"),
 "C05": ("model_checking", "§2 C05", HIST,
   "Same exploration under a checking allocator (fixed-address arenas, red zones, layout check on free/realloc, poison on free, no reuse) plus token self-checks on every reference handed out, plus std's unsafe-precondition checks (debug assertions on); the allocator also runs in a grow-in-place mode (odd address salts).  In addition: every Serialize/Deserialize call position of a component returning Err (fault engine), and every operation sequence up to depth 2 (quick) / 3 (thorough) on registries of 0, 2, 4, 8 and 9 components executed under the Miri interpreter (reads outside an allocation, invalid references, leaks at exit).",
   "under the checking allocator out-of-bounds reads landing in mapped memory whose value is never inspected are invisible (the Miri sequences cover them at smaller depth); parallel queries are not run under Miri"),
 "C13": ("model_checking", "§2 C13", HIST,
   "Same exploration; after every operation the read-only structural dump (hook H1) is audited: slots <-> rows bijection, free list = inactive slots, len, one table per component set, lookup tables consistent, addresses owned by this world.  Every world returned by deserializing an edited serialization (the C11 engine's inputs) is audited the same way, as returned and after every continuation operation.",
   "audit reads brood's private state through cfg(brood_verif) hook H1"),
 "C15": ("model_checking", "§2 C15", HIST,
   "Same exploration on a world with two resources: both resources are read back after every operation (incl. clone, clone_from, serde round trips, entity ops) and written through get_mut, view_resources and query resource views in different orders; plus a generated grid of every ordered selection and &/&mut assignment of views over a three-resource list through view_resources, query, par_query and run_system; plus every resource-view schedule of the E3 family.",
   "the two cyclic 3-orders of resource views do not type-check in brood and cannot be exercised (DESIGN.md observation)"),
 "C06": ("model_checking", "§2 C06", HIST,
   "BFS in which every reachable state gets a lock-step twin made by a serde round trip in each of three encodings (JSON text = row-wise, compact tokens = column-wise, human-readable tokens); round trip must succeed, compare equal both ways and preserve slots/generations/free list; every later operation is applied to both worlds, which must issue identical identifiers and hold identical contents; round trips and clones are also ordinary operations.",
   "serde_json and serde_assert as the two formats; lock-step identity is not demanded across clear() over several populated tables (identifier release order there depends on heap addresses, DESIGN.md)"),
 "C10": ("model_checking", "§2 C10", HIST + " + pairwise clone/clone_from engine",
   "(a) BFS with clone lock-step twins, snapshots, clone_from and swap as operations, the untouched world re-checked after every operation; (b) every ordered pair (src,dst) of a reachable state set: dst.clone_from(src) / src.clone(), contents, equality (clone), audits, address disjointness, then every operation of a 12-op alphabet on either side with the other side re-checked, then both drop orders.",
   "state set for pairs bounded as reported; == demanded of clone() only (clone_from keeps emptied tables)"),
 "C16": ("model_checking", "§2 C16", HIST + " (pair mode)",
   "Every ordered pair of a reachable state set, twice: with values normalised to a function of (identifier, component), and with values normalised to a function of (table, row, component) so that only the identifiers can tell two worlds apart: reflexive, symmetric, equal implies same contents; every state against 12 single perturbations (value, resource, live set, component set): unequal in both directions. a clone and three round trips of every state must compare equal both ways.",
   "state set bounded as reported"),
 "C07": ("model_checking", "§2 C07", SCHED,
   "Every schedule type of a generated family (ordered pairs/triples of view kinds, filter-disjoint writers, resource views, entry views, ParSystems, longer schedules) x 86 worlds x 2 address salts x every permutation of every fork/join nest, executed on the real run_schedule through the fork/join seam; per-task run count = 1 and final world, resources and every system's own state equal those of run_system/run_par_system applied one by one in declared order.",
   "schedule family bounded (<=5 tasks, registry (A,B,C), 2 resources); task bodies atomic (justified by C08's oracle on the same runs); rayon trusted"),
 "C08": ("model_checking", "§2 C08", SCHED,
   "Same runs. Every task records address/size/mode of everything it is handed (iterator items, resource views, every reference reachable through its entry views); for every two tasks of one fork/join nest (i.e. permitted to overlap) no two ranges overlap with one side mutable. A happens-before argument over the fork/join structure, so all interleavings of a run are covered at once.",
   "as C07"),
 "C12": ("model_checking", "§2 C12", SCHED,
   "Same runs. The partition of the tasks into fork/join nests must equal, on every catalogue world, the one predicted by a reference model of the scheduler written in the harness (static stages = greedy in-order grouping by declared access; at the end of a stage the next stage's tasks are started early, in order, when their resource claims and per-table component claims merge); a task placed later than predicted, a predicted group that is split, or two same-stage tasks whose fork/join intervals do not intersect (serialised) is a violation. Termination: every explored order runs to completion under the seam; every schedule also returns on real pools of 1, 2 and 4 threads (regression guard, sampling).",
   "the reference model is ~80 lines (sched/src/lib.rs model_nests) and is itself validated by conforming to the implementation on all 377 schedule types x 86 worlds; greedy reference ignores filters and entity::Identifier, as the property states"),
 "C11": ("fault_enumeration", "§2 C11", FAULT,
   "Every single edit (delete, duplicate, swap, alter; per-token-kind alterations incl. every bit flip of archetype identifier bytes, declared lengths +-1, field/struct renames, type changes) at every position of every base serialization in compact-token, human-readable-token and JSON-text form (JSON: also truncation at every byte offset, every value-tree edit, duplicated keys); thorough adds all swaps and all pairs of edits on the smallest bases. Each input is deserialized on the real code: Err (no double drop, no allocator misuse) or Ok(world) that passes the full structural audit, resolves every identifier, survives every continuation operation of a 12-op alphabet and drops cleanly.",
   "declared lengths bounded by input size; serde_assert/serde_json are the environment; leaks on error paths are reported, not violations; the cleanup of partly decoded columns is additionally enumerated over a second registry whose first component no table uses (every Deserialize call position of a component returning Err)"),
 "C17": ("fault_enumeration", "§2 C17", FAULT,
   "For every (base world, operation that calls user code, callback kind, call index k below the count observed in the unfaulted run): a panic is armed at exactly that call, the operation is run, then each of 6 aftermaths (drop; read everything; clear; remove every identifier; Entry::add through every identifier; Entry::remove + entry query through every identifier) is judged by the drop ledger and the checking allocator; process aborts from std's unsafe-precondition checks are attributed to the armed case by a supervising parent. 41 operations incl. remove, clear, Entry::add/remove, clone, clone_from (6 sources), drop, (de)serialization in 3 encodings, ==, Debug, run_system, run_par_system, run_schedule.",
   "second panics never armed; leaks allowed; open known findings (known_findings.json) are matched per call site: clone_from/Clone where the destination is neither identical to the source nor a row-prefix of it, clone_from/Drop per table class of the destroyed value"),
 "C14": ("exploration", "§2 C14", "E6 generated program families type- and borrow-checked by rustc against the current brood rlib (tools/progs.py)",
   "302 generated programs in 7 families (every view-kind pair on one component in Views!/entry queries/par queries; iterator vs entry views; entry vs entry views; resource view pairs in 3 APIs; repeated single-entity access; components/resources outside the registry in 15 APIs; 30 thread-crossing programs with Rc/Cell payloads incl. schedules), each must-reject program paired with a conflict-free twin that must compile; the verdict of a small reference model of Rust's aliasing and Send/Sync rules is compared with rustc's verdict.",
   "bounded-exhaustive enumeration of a program space with the compiler as transition function; says nothing outside the families; 6 programs of the entries-requery family are open known findings"),
 "C18": ("exploration", "§2 C18", "generated programs (mc/dup) + E6",
   "All 120 duplicate-position registries of length 2..9 plus the 8 duplicate-free ones through 9 constructors (new, with_resources, default, Deserialize in 3 encodings of an empty and of a populated world): must panic / must return; all 120 column-length tuples in {0,1,2}^k (k=1..4): Batch::new returns iff equal, extend then stores rows and the structure audit holds; Batch::new_unchecked requires unsafe. The space stated in the property is finite and enumerated completely.",
   "components are distinct nominal types; TypeId-based duplicate detection trusted to be what it is"),
 "C03": ("exploration", "§2 C03", GRID,
   "Generated query instantiations: view kind per component x identifier position x view order x filter expression (quick: covering subset, thorough: full product with all orders and 11 filters), each evaluated on every world of a catalogue (all states reachable within depth 3/4 of the shape alphabet) in four traversal modes (next() with size_hint bracket check before every call, fold, k x next() then fold), plus World::entry(id).query for every identifier, plus query-time Entries with every (declared, requested) entry-view kind pair (thorough: the full 4913-combination product); oracle = the reference model's evaluation of filter and views, written values read back.",
   "registry S4, views over (A heap-owning, Z zero-sized, O over-aligned), B in filters; compile time bounds the quick product"),
 "C09": ("model_checking", "§2 C09", GRID + " + E4 split-tree explorer (mc/split, vendored rayon with an inert-by-default split oracle)",
   "(i) par_query instantiations of the view grid with five consumers (for_each, map+collect, count, any, sum) against the sequential query on every catalogue world: same multiset, distinct &mut addresses, same outcome of a per-entity update. (ii) Every answer sequence of rayon's Splitter::try_split, i.e. every split tree, for every (world, view set, consumer) configuration: worlds = every assignment of {absent, emptied, 1..n rows} to three tables plus 20- and 32-table worlds whose bucket ranges do split; view sets cover slice, RepeatN, RepeatNone, identifier and zipped producers.",
   "the oracle replaces rayon's adaptive heuristic only; on a 1-thread pool the execution is a function of the answer sequence; rayon's mechanics, hashbrown and rustc trusted"),
}
NOT_YET = {
 "C03": "check under construction (E2 view/filter grid)",
 "C06": "check under construction (E1 round-trip + lock-step continuation oracle)",
 "C07": "check under construction (E3 schedule order explorer)",
 "C08": "check under construction (E3 schedule order explorer)",
 "C09": "check under construction (E2 par grid + E4 split oracle)",
 "C10": "check under construction (E1 pairwise clone_from oracle)",
 "C11": "check under construction (E5 token-edit enumeration)",
 "C12": "check under construction (E3 schedule order explorer)",
 "C14": "check under construction (E6 program families)",
 "C16": "check under construction (E1 pairwise equality oracle)",
 "C17": "check under construction (E5 panic injection)",
 "C18": "check under construction (generated duplicate-registry / ragged-batch programs)",
}

def main():
    hooks = subprocess.run(["git", "-C", "/repo", "log", "--format=%H %s"], stdout=subprocess.PIPE, text=True).stdout.splitlines()
    hook_commits = [l.split()[0] for l in hooks if "verif hook" in l]
    checks = []
    for pid, (cat, ref, eng, text, note) in sorted(CHECKS.items()):
        checks.append({
            "property_id": pid,
            "quick_cmd": "./check %s quick" % pid,
            "thorough_cmd": "./check %s thorough" % pid,
            "evidence_file": "/verif/evidence/%s.json" % pid,
            "replay_cmd_template": "./check %s --replay {path}" % pid,
            "engine": eng,
            "level_claimed": {"category": cat, "text": text, "design_ref": ref},
            "level_note": note,
            "technique": TECH0.get(pid) or TECH.get(pid, "explicit-state model checking of the implementation (exhaustive BFS over bounded operation histories, reference-model oracle)"),
        })
    m = {
        "version": 1,
        "setup_cmd": "cd /verif && python3 tools/gen_sched.py && python3 tools/gen_grid.py && python3 tools/gen_dup.py && cd mc && CARGO_NET_OFFLINE=true cargo build --release --offline 2>&1 | tail -3 && cd /verif && python3 tools/build_nodebug.py && cd /verif/mc && CARGO_TARGET_DIR=/verif/target/miri CARGO_NET_OFFLINE=true cargo +nightly miri run --offline -q -p mcmiri -- 0 r0 | tail -1",
        "hooks": {
            "guard": "--cfg brood_verif",
            "enable": "RUSTFLAGS=--cfg brood_verif via /verif/mc/.cargo/config.toml (brood is a path dependency of the harness workspace, rebuilt from /repo's working tree)",
            "baseline_off_cmd": "cd /repo && cargo test --workspace --no-fail-fast --offline",
            "source_commits": hook_commits,
            "add_only": True,
        },
        "engines": ENGINES,
        "checks": checks,
        "not_applicable": [{"property_id": k, "reason": v} for k, v in sorted(NOT_YET.items()) if k not in CHECKS],
        "notes": "All checks: exit 0 held / 1 violation (VIOLATION line) / 2 machinery failure. Known findings: /verif/known_findings.json. See DESIGN.md.",
    }
    json.dump(m, open(os.path.join(ROOT, "MANIFEST.json"), "w"), indent=1)

TECH0 = {"C03": "bounded-exhaustive enumeration of query instantiations x reachable states, executed on the implementation against a reference model", "C09": "stateless model checking: exhaustive enumeration of rayon split trees (controlled split oracle) + exhaustive par/seq differential over the query grid", "C14": "bounded-exhaustive enumeration of a generated program space (compiler as transition function, reference verdict model as oracle)", "C18": "complete enumeration of the finite input space stated in the property (all duplicate-position registries, all column-length tuples) executed on the implementation", "C11": "exhaustive enumeration of input edits (all single edits at all positions, 3 encodings) executed on the implementation, Err/valid-world oracle", "C17": "exhaustive enumeration of fault positions (every callback index of every operation on every base world) executed on the implementation, ledger/allocator oracle"}
TECH = {p: "stateless model checking of the implementation: exhaustive enumeration of task orders per fork/join nest under a controlled scheduler, sequential reference / footprint oracle" for p in ("C07", "C08", "C12")}
ENGINES = [
 {"name": "grid", "path": "/verif/mc/grid", "serves_properties": ["C03", "C09"], "kind_free_text": "generated product of query instantiations x reachable-world catalogue, reference-model oracle"},
 {"name": "split", "path": "/verif/mc/split", "serves_properties": ["C09"], "kind_free_text": "stateless DFS over the answers of rayon's split decisions (vendored rayon 1.12.0 + thread-claimed oracle), every split tree of par_query"},
 {"name": "progs", "path": "/verif/tools/progs.py", "serves_properties": ["C14", "C18"], "kind_free_text": "program-family enumeration: rustc --emit=metadata per generated program against the current rlib, reference verdict model"},
 {"name": "dup", "path": "/verif/mc/dup", "serves_properties": ["C18"], "kind_free_text": "generated duplicate-registry and ragged-batch enumeration"},
 {"name": "fault", "path": "/verif/mc/fault", "serves_properties": ["C11", "C17"],
  "kind_free_text": "exhaustive fault-position enumeration: supervisor + worker processes, each case executed on the real World inside the checking allocator with the drop ledger"},
 {"name": "sched", "path": "/verif/mc/sched", "serves_properties": ["C07", "C08", "C12"],
  "kind_free_text": "stateless exploration (DFS with prefix replay) of every admissible task order of run_schedule via the cfg(brood_verif) fork/join seam, generated schedule family x world catalogue, sequential reference + footprint oracle"},
 {"name": "miri", "path": "/verif/mc/miri", "serves_properties": ["C05"], "kind_free_text": "exhaustive enumeration of short operation sequences on the real World, each executed in the Miri interpreter (the interpreter is the oracle for undefined behaviour; enumeration, not sampling, decides coverage)"},
 {"name": "hist", "path": "/verif/mc/hist", "serves_properties": ["C01", "C02", "C04", "C05", "C06", "C10", "C13", "C15", "C16"],
  "kind_free_text": "explicit-state BFS over operation histories executed on the real brood::World inside deterministic arenas, lock-step reference model, structural audit, drop ledger"},
]

if __name__ == "__main__":
    main()
