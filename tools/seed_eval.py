#!/usr/bin/env python3
"""Confirms one seeded change and records which checks catch it.

  seed_eval.py <PROP> <SEEDDIR> <N> [--checks C01,C13]   (reads SEEDDIR/patch<N>.diff, demo<N>.rs, notes.md)
  seed_eval.py --recheck <ID>                            (re-runs the checks for /verif/seeded/<ID>)

1. scratch worktree (/tmp/sv_wt, target /tmp/sv_target): demo passes on the unchanged tree; with the patch the
   pinned suite still passes and the demo fails.
2. applies the patch to /repo, runs the listed quick checks, undoes it straight afterwards.
3. writes /verif/seeded/<PROP>-<N>/{patch.diff, demo.rs, meta.json}."""
import json, os, re, shutil, subprocess, sys, time

ROOT = os.path.dirname(os.path.dirname(os.path.abspath(__file__)))
WT, TGT = "/tmp/sv_wt", "/tmp/sv_target"
if os.environ.get("SV_SUFFIX"):
    WT, TGT = WT + "_" + os.environ["SV_SUFFIX"], TGT + "_" + os.environ["SV_SUFFIX"]
ENV = dict(os.environ, CARGO_NET_OFFLINE="true", CARGO_TARGET_DIR=TGT)
RELATED = {
    "C01": ["C01", "C13", "C05"], "C02": ["C02", "C13", "C01"], "C04": ["C04", "C05"], "C05": ["C05", "C04", "C13"], "C06": ["C06", "C11", "C13"],
    "C10": ["C10", "C13", "C04"], "C13": ["C13", "C01", "C02"], "C15": ["C15", "C10"], "C16": ["C16", "C10"], "C03": ["C03", "C09", "C02"],
    "C07": ["C07", "C08", "C12"], "C08": ["C08", "C07", "C12"], "C12": ["C12", "C07", "C08"], "C09": ["C09", "C03"], "C11": ["C11", "C06"],
    "C14": ["C14"], "C17": ["C17", "C04"], "C18": ["C18"],
}


def sh(cmd, cwd=None, env=None, timeout=3600):
    r = subprocess.run(cmd, cwd=cwd, env=env or ENV, stdout=subprocess.PIPE, stderr=subprocess.STDOUT, text=True, timeout=timeout)
    return r.returncode, r.stdout


def suite_ok(out):
    res = re.findall(r"test result: (\w+)\. (\d+) passed; (\d+) failed", out)
    return bool(res) and all(r[0] == "ok" and r[2] == "0" for r in res) and "error: could not compile" not in out, sum(int(r[1]) for r in res)


def scratch_verify_c14(patch, n, src):
    """C14 seeds: the demonstration is an example program that must be rejected (unchanged) / accepted (patched)."""
    log = {}
    subprocess.run(["git", "-C", "/repo", "worktree", "remove", "--force", WT], stdout=subprocess.DEVNULL, stderr=subprocess.DEVNULL)
    rc, out = sh(["git", "-C", "/repo", "worktree", "add", "--detach", WT, "HEAD"])
    assert rc == 0, out
    try:
        os.makedirs(os.path.join(WT, "examples"), exist_ok=True)
        shutil.copy(os.path.join(src, "demo%s.rs" % n), os.path.join(WT, "examples", "seed_demo.rs"))
        rc, out = sh(["cargo", "build", "--offline", "--all-features", "--example", "seed_demo"], cwd=WT)
        log["demo_unpatched"] = {"rc": rc, "rejected_by_compiler": rc != 0, "tail": out[-500:]}
        rc2, out2 = sh(["git", "apply", patch], cwd=WT)
        log["apply"] = {"rc": rc2}
        os.remove(os.path.join(WT, "examples", "seed_demo.rs"))
        rc3, out3 = sh(["cargo", "test", "--workspace", "--no-fail-fast", "--offline"], cwd=WT)
        ok, npass = suite_ok(out3)
        log["suite_patched"] = {"ok": ok, "passed": npass, "tail": out3[-300:]}
        shutil.copy(os.path.join(src, "demo%s.rs" % n), os.path.join(WT, "examples", "seed_demo.rs"))
        rc4, out4 = sh(["cargo", "build", "--offline", "--all-features", "--example", "seed_demo"], cwd=WT)
        log["demo_patched"] = {"rc": rc4, "accepted_by_compiler": rc4 == 0, "tail": out4[-300:]}
        log["confirmed"] = bool(rc != 0 and rc2 == 0 and ok and rc4 == 0)
    finally:
        subprocess.run(["git", "-C", "/repo", "worktree", "remove", "--force", WT], stdout=subprocess.DEVNULL, stderr=subprocess.DEVNULL)
    return log


def scratch_verify(patch, demo):
    log = {}
    rel = ["--release"] if "--release-demo" in sys.argv else []
    miri = "--miri-demo" in sys.argv
    def demo_cmd():
        if miri:
            return ["cargo", "+nightly", "miri", "test", "--offline", "--all-features", "--test", "seed_demo"]
        return ["cargo", "test", "--offline", "--all-features", "--test", "seed_demo"] + rel
    subprocess.run(["git", "-C", "/repo", "worktree", "remove", "--force", WT], stdout=subprocess.DEVNULL, stderr=subprocess.DEVNULL)
    rc, out = sh(["git", "-C", "/repo", "worktree", "add", "--detach", WT, "HEAD"])
    assert rc == 0, out
    try:
        shutil.copy(demo, os.path.join(WT, "tests", "seed_demo.rs"))
        rc, out = sh(demo_cmd(), cwd=WT)
        log["demo_unpatched"] = {"rc": rc, "tail": out[-600:]}
        rc2, out2 = sh(["git", "apply", patch], cwd=WT)
        log["apply"] = {"rc": rc2, "out": out2[-300:]}
        if rc2 == 0:
            os.remove(os.path.join(WT, "tests", "seed_demo.rs"))
            rc3, out3 = sh(["cargo", "test", "--workspace", "--no-fail-fast", "--offline"], cwd=WT)
            shutil.copy(demo, os.path.join(WT, "tests", "seed_demo.rs"))
            ok, n = suite_ok(out3)
            log["suite_patched"] = {"ok": ok, "passed": n, "tail": out3[-400:]}
            rc4, out4 = sh(demo_cmd(), cwd=WT)
            log["demo_patched"] = {"rc": rc4, "tail": out4[-1200:]}
    finally:
        subprocess.run(["git", "-C", "/repo", "worktree", "remove", "--force", WT], stdout=subprocess.DEVNULL, stderr=subprocess.DEVNULL)
    log["demo_profile"] = "miri" if miri else ("release" if rel else "debug")
    log["confirmed"] = bool(log.get("demo_unpatched", {}).get("rc") == 0 and log.get("apply", {}).get("rc") == 0 and log.get("suite_patched", {}).get("ok") and log.get("demo_patched", {}).get("rc", 0) != 0)
    return log


def run_checks(patch, checks):
    res = {}
    rc, out = sh(["git", "-C", "/repo", "status", "--porcelain", "--untracked-files=no"], env=os.environ)
    assert out.strip() == "", "/repo has local changes: " + out
    rc, out = sh(["git", "-C", "/repo", "apply", patch], env=os.environ)
    assert rc == 0, out
    try:
        for c in checks:
            t0 = time.time()
            rc, out = sh([os.path.join(ROOT, "check"), c, "quick"], cwd=ROOT, env=dict(os.environ, CARGO_NET_OFFLINE="true"), timeout=3000)
            viol = [l for l in out.splitlines() if l.startswith("VIOLATION")]
            keys = [l.strip() for l in out.splitlines() if l.strip().startswith("key=")]
            res[c] = {"exit": rc, "violations": viol[:6], "first_keys": keys[:4], "wall_s": round(time.time() - t0, 1),
                      "machinery": [l for l in out.splitlines() if l.startswith(("MACHINERY", "CRASH"))][:3]}
    finally:
        subprocess.run(["git", "-C", "/repo", "checkout", "--", "."])
    return res


def main():
    if sys.argv[1] == "--recheck":
        sid = sys.argv[2]
        d = os.path.join(ROOT, "seeded", sid)
        meta = json.load(open(os.path.join(d, "meta.json")))
        checks = sys.argv[3].split(",") if len(sys.argv) > 3 else list(meta["checks"].keys())
        meta["checks"].update(run_checks(os.path.join(d, "patch.diff"), checks))
        meta["caught_by"] = sorted(c for c, r in meta["checks"].items() if r["exit"] == 1)
        json.dump(meta, open(os.path.join(d, "meta.json"), "w"), indent=1)
        print(sid, "caught by", meta["caught_by"])
        return
    prop, src, n = sys.argv[1], sys.argv[2], sys.argv[3]
    checks = RELATED.get(prop, [prop])
    if "--checks" in sys.argv:
        checks = sys.argv[sys.argv.index("--checks") + 1].split(",")
    off = int(sys.argv[sys.argv.index("--id-offset") + 1]) if "--id-offset" in sys.argv else 0
    sid = "%s-%d" % (prop, int(n) + off)
    d = os.path.join(ROOT, "seeded", sid)
    os.makedirs(d, exist_ok=True)
    shutil.copy(os.path.join(src, "patch%s.diff" % n), os.path.join(d, "patch.diff"))
    shutil.copy(os.path.join(src, "demo%s.rs" % n), os.path.join(d, "demo.rs"))
    notes = open(os.path.join(src, "notes.md")).read() if os.path.exists(os.path.join(src, "notes.md")) else ""
    open(os.path.join(d, "notes.md"), "w").write(notes)
    if "--checks-only" in sys.argv:
        meta = json.load(open(os.path.join(d, "meta.json")))
        v = meta["confirmed_in_scratch_worktree"]
    elif prop == "C14" or "--example" in sys.argv:
        v = scratch_verify_c14(os.path.join(d, "patch.diff"), n, src)
    else:
        v = scratch_verify(os.path.join(d, "patch.diff"), os.path.join(d, "demo.rs"))
    meta = {"id": sid, "breaks_property": prop, "source": "independent sub-agent given only the property text and a scratch worktree",
            "needs_to_manifest": "see notes.md (section for change %s)" % n,
            "confirmed_in_scratch_worktree": v, "ran": ["cargo test --offline --all-features --test seed_demo (unpatched: pass; patched: fail)",
                                                         "cargo test --workspace --no-fail-fast --offline (patched: all pass)", "git -C /repo apply patch.diff; ./check <P> quick ...; git -C /repo checkout -- ."],
            "checks": {}, "caught_by": []}
    if v["confirmed"] and "--scratch-only" not in sys.argv:
        meta["checks"] = run_checks(os.path.join(d, "patch.diff"), checks)
        meta["caught_by"] = sorted(c for c, r in meta["checks"].items() if r["exit"] == 1)
    json.dump(meta, open(os.path.join(d, "meta.json"), "w"), indent=1)
    print(sid, "confirmed" if v["confirmed"] else "NOT CONFIRMED", "caught by", meta["caught_by"], {c: r["exit"] for c, r in meta["checks"].items()})


if __name__ == "__main__":
    main()
