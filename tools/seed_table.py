#!/usr/bin/env python3
"""Regenerates the seeded-changes table of DESIGN.md (between the table header and the next heading) from seeded/*/meta.json."""
import json, os, re
ROOT = os.path.dirname(os.path.dirname(os.path.abspath(__file__)))
rows = []
for sid in sorted(os.listdir(os.path.join(ROOT, "seeded")), key=lambda s: (s.split("-")[0], int(s.split("-")[1]))):
    m = json.load(open(os.path.join(ROOT, "seeded", sid, "meta.json")))
    own = m["breaks_property"]
    first = ""
    order = [own] + [c for c in m["caught_by"] if c != own]
    for c in order:
        r = m["checks"].get(c)
        if r and r["exit"] == 1 and r["first_keys"]:
            first = r["first_keys"][0].replace("key=", "", 1)[:80].replace("|", "/")
            break
    rows.append("| %s | %s | %s | %s | `%s` |" % (sid, m.get("what_changed", "").replace("|", "/"), m.get("needs_to_manifest", "").replace("|", "/"), ", ".join(m["caught_by"]), first))
p = os.path.join(ROOT, "DESIGN.md")
s = open(p).read()
head = "| seed | change | needs | caught by (quick) | first reported key |\n|---|---|---|---|---|\n"
a = s.index(head) + len(head)
b = s.index("\n### ", a)
s = s[:a] + "\n".join(rows) + "\n" + s[b:]
open(p, "w").write(s)
print(len(rows), "rows")
