#!/usr/bin/env python3
"""Generates the E3 schedule family (mc/sched/src/bin/*.rs) and mc/sched/schedules.json.

A task kind is written  views[/filter][/res][/ent][/par], e.g.  "wA,rB/nB/wR0/eA:w/par":
  views: comma list of  r|w|o|p + component  (& / &mut / Option<&> / Option<&mut>), or "id", or "-" for none
  filter: hB | nB | hA | nA | (absent = None)
  res:   comma list of  r|w + R0|R1
  ent:   entry views, comma list like views
  par:   ParSystem instead of System
Systematic pools (DESIGN.md §2 C07): P1 ordered pairs, P2 ordered triples, P3 filter-disjoint writers,
P4 resources, P5 entry views, P6 ParSystem variants, P7 longer schedules.
"""
import itertools, json, os, sys

ROOT = os.path.dirname(os.path.dirname(os.path.abspath(__file__)))
OUT = os.path.join(ROOT, "mc", "sched", "src", "bin")

COMP_OBJ = {"A": 0, "B": 1, "C": 2}
RES_OBJ = {"R0": 10, "R1": 11, "R2": 12}


def parse_task(spec):
    parts = spec.split("/")
    t = {"spec": spec, "views": [], "filter": None, "res": [], "ent": [], "par": False}
    def views(s):
        out = []
        if s in ("", "-"):
            return out
        for v in s.split(","):
            if v == "id":
                out.append(("id", None))
            else:
                out.append((v[0], v[1:]))
        return out
    t["views"] = views(parts[0])
    for p in parts[1:]:
        if p == "par":
            t["par"] = True
        elif p[0] in "hn" and p[1:] in COMP_OBJ and len(p) == 2:
            t["filter"] = p
        elif p.startswith("e"):
            t["ent"] = views(p[1:].replace(":", ""))  # eA:w -> "Aw"?? handled below
        else:
            t["res"] = [(x[0], x[1:]) for x in p.split(",")]
    return t


def parse_task2(spec):
    """entry views are written  e=wA,rB"""
    parts = spec.split("/")
    t = {"spec": spec, "views": [], "filter": None, "res": [], "ent": [], "par": False}
    def views(s):
        out = []
        if s in ("", "-"):
            return out
        for v in s.split(","):
            out.append(("id", None) if v == "id" else (v[0], v[1:]))
        return out
    t["views"] = views(parts[0])
    for p in parts[1:]:
        if p == "par":
            t["par"] = True
        elif p.startswith("e="):
            t["ent"] = views(p[2:])
        elif p.startswith("f="):
            t["filter"] = p[2:]
        elif p.startswith("r="):
            t["res"] = [(x[0], x[1:]) for x in p[2:].split(",")]
        else:
            raise ValueError(spec)
    return t


def vtype(kind, comp):
    if kind == "id":
        return "entity::Identifier"
    return {"r": "&'a %s", "w": "&'a mut %s", "o": "Option<&'a %s>", "p": "Option<&'a mut %s>"}[kind] % comp


def hlist(items, null="view::Null"):
    s = null
    for it in reversed(items):
        s = "(%s, %s)" % (it, s)
    return s


def ftype(f):
    if f is None:
        return "filter::None"
    return {"h": "filter::Has<%s>", "n": "filter::Not<filter::Has<%s>>"}[f[0]] % f[1:]


def access(t):
    acc = []
    for k, c in t["views"] + t["ent"]:
        if k != "id":
            acc.append((COMP_OBJ[c], k in "wp"))
    for k, r in t["res"]:
        acc.append((RES_OBJ[r], k == "w"))
    return acc


def visit(kind, var, slot, entry=False):
    wfn = "ew" if entry else "w"
    if kind == "id":
        return "st.ident(%d, %s);" % (slot, var)
    if kind == "r":
        return "st.r(%d, &%s.0);" % (slot, var)
    if kind == "w":
        return "st.%s(%d, &mut %s.0);" % (wfn, slot, var)
    if kind == "o":
        return "match %s { Some(x) => st.r(%d, &x.0), None => st.none(%d) }" % (var, slot, slot)
    if kind == "p":
        return "match %s { Some(x) => st.%s(%d, &mut x.0), None => st.none(%d) }" % (var, wfn, slot, slot)
    raise ValueError(kind)


def gen_task(i, t):
    name = "T%d" % i
    views_t = hlist([vtype(k, c) for k, c in t["views"]])
    res_t = hlist([("&'a mut %s" if k == "w" else "&'a %s") % r for k, r in t["res"]])
    ent_t = hlist([vtype(k, c) for k, c in t["ent"]])
    trait = "ParSystem" if t["par"] else "System"
    itb = "ParallelIterator" if t["par"] else "Iterator"
    vars_ = ["v%d" % j for j in range(len(t["views"]))]
    pat = "result!(%s)" % ", ".join(vars_)
    body = " ".join(visit(k, v, j + 1) for j, ((k, c), v) in enumerate(zip(t["views"], vars_)))
    if not t["views"]:
        body = "st.none(99);"
    lines = []
    lines.append("pub struct %s { pub st: TaskState }" % name)
    lines.append("impl %s for %s {" % (trait, name))
    lines.append("    type Views<'a> = %s;" % views_t)
    lines.append("    type Filter = %s;" % ftype(t["filter"]))
    lines.append("    type ResourceViews<'a> = %s;" % res_t)
    lines.append("    type EntryViews<'a> = %s;" % ent_t)
    lines.append("    fn run<'a, R, S, I, E>(&mut self, #[allow(unused_mut)] mut qr: Result<'a, R, S, I, Self::ResourceViews<'a>, Self::EntryViews<'a>, E>)")
    lines.append("    where R: registry::ContainsViews<'a, Self::EntryViews<'a>, E>, I: %s<Item = Self::Views<'a>> {" % itb)
    lines.append("        let st = &self.st; st.enter();")
    if t["res"]:
        rv = ["x%d" % j for j in range(len(t["res"]))]
        lines.append("        let result!(%s) = qr.resources;" % ", ".join(rv))
        for j, ((k, r), v) in enumerate(zip(t["res"], rv)):
            lines.append("        " + ("st.w(%d, &mut %s.0);" if k == "w" else "st.r(%d, &%s.0);") % (100 + j, v))
    if t["par"]:
        lines.append("        qr.iter.for_each(|%s| { %s });" % (pat, body))
    else:
        lines.append("        for %s in qr.iter { %s }" % (pat, body))
    if t["ent"]:
        lines.append("        for id in st.ids.iter() {")
        lines.append("            if let Some(mut e) = qr.entries.entry(*id) {")
        for j, (k, c) in enumerate(t["ent"]):
            if k == "id":
                continue
            sub = hlist([vtype(k, c)])
            lines.append("                if let Some(result!(y)) = e.query(Query::<%s>::new()) { %s }" % (sub, visit(k, "y", 200 + j, entry=True)))
        lines.append("            }")
        lines.append("        }")
    lines.append("    }")
    lines.append("}")
    return "\n".join(lines)


def sched_name(specs):
    s = "__".join(specs)
    for a, b in (("/", "_"), (",", ""), ("=", ""), ("-", "none")):
        s = s.replace(a, b)
    return "s_" + s


def gen_schedule(specs):
    tasks = [parse_task2(s) for s in specs]
    name = sched_name(specs)
    out = ["#[allow(non_snake_case, unused_variables, unused_imports)]", "mod %s {" % name, "    use super::*;"]
    for i, t in enumerate(tasks):
        out.append("    " + gen_task(i, t).replace("\n", "\n    "))
    def req_mask(t):
        return sum(1 << COMP_OBJ[c] for k, c in t["views"] if k in "rw")
    def entry_mask(t):
        return sum(1 << COMP_OBJ[c] for k, c in t["ent"] if k != "id")
    def filt(t):
        f = t["filter"]
        return (0, 0) if f is None else ((1 if f[0] == "h" else 2), COMP_OBJ[f[1:]])
    descs = ", ".join(
        'TaskDesc { label: "%s", access: vec![%s], par: %s, req: %d, filt: (%d, %d), entry: %d }'
        % (t["spec"], ", ".join("(%d, %s)" % (o, "true" if w else "false") for o, w in access(t)), "true" if t["par"] else "false", req_mask(t), filt(t)[0], filt(t)[1], entry_mask(t))
        for t in tasks
    )
    def tw(i, t):
        return "task::%s(T%d { st: TaskState::new(%d, ids) })" % ("ParSystem" if t["par"] else "System", i, i)
    sched = "brood::system::schedule!(%s)" % ", ".join(tw(i, t) for i, t in enumerate(tasks))
    def acc(i):
        return "s" + ".1" * i + ".0"
    snaps = ", ".join("(%s).0.st.snapshot()" % acc(i).replace("s.", "s.", 1) for i in range(len(tasks)))
    # tuple field access with spaces to keep the lexer happy: s.1.1.0 -> ((s.1).1).0
    def path(i):
        e = "s"
        for _ in range(i):
            e = "(%s.1)" % e
        return "(%s.0)" % e
    snaps = ", ".join("%s.0.st.snapshot()" % path(i) for i in range(len(tasks)))
    out.append("    pub fn run(ctx: &mut ShardCtx) {")
    out.append('        let desc = SchedRun { name: "%s", tasks: vec![%s] };' % (" | ".join(specs), descs))
    out.append("        let run_sched = |w: &mut W, ids: &[entity::Identifier]| -> Vec<TaskSnap> {")
    out.append("            let mut s = %s;" % sched)
    out.append("            w.run_schedule(&mut s);")
    out.append("            vec![%s]" % snaps)
    out.append("        };")
    out.append("        let run_seq = |w: &mut W, ids: &[entity::Identifier]| -> Vec<TaskSnap> {")
    for i, t in enumerate(tasks):
        out.append("            let mut t%d = T%d { st: TaskState::new(%d, ids) };" % (i, i, i))
    for i, t in enumerate(tasks):
        out.append("            w.%s(&mut t%d);" % ("run_par_system" if t["par"] else "run_system", i))
    out.append("            vec![%s]" % ", ".join("t%d.st.snapshot()" % i for i in range(len(tasks))))
    out.append("        };")
    out.append("        ctx.explore(&desc, &run_sched, &run_seq);")
    out.append("    }")
    out.append("}")
    return name, "\n".join(out)


HEADER = """// GENERATED by tools/gen_sched.py -- do not edit.
use brood::{entity, query::{filter, result, view, Result}, registry, system::{schedule::task, ParSystem, System}, Query};
use rayon::iter::ParallelIterator;
use sched::*;
"""


def pools():
    P = {}
    k1 = ["rA", "wA", "oA", "pA", "rB", "wB"]
    P["P1"] = [[a, b] for a in k1 for b in k1]
    k2 = ["rA", "wA", "rB", "wB"]
    P["P2"] = [[a, b, c] for a in k2 for b in k2 for c in k2]
    P["P3"] = [
        ["wA/f=hB", "wA/f=nB"], ["wA/f=nB", "wA/f=hB"], ["wA/f=hB", "rA/f=nB"], ["rA/f=hB", "wA/f=nB", "wA"],
        ["wA/f=hB", "wA/f=nB", "rA"], ["wA,rB", "wA/f=nB"], ["wA,wB", "wA/f=nB", "wB/f=nA"], ["pA,wB", "wA/f=nB"],
        ["wB/f=hA", "wB/f=nA", "wA"], ["wA/f=hB", "wB/f=hA"], ["oA,wB", "wA/f=nB", "rB"], ["wA/f=nB", "wB/f=nA", "wA,wB"],
        ["rA,id", "wA/f=hB"], ["id", "wA", "id"], ["-", "wA", "-"], ["wA/f=hB", "pA/f=nB", "oA"],
        ["wA/f=nB", "rB", "wA/f=hB"], ["wB", "wA/f=nB", "rA/f=hB"], ["wA/f=hB", "wA/f=hB"], ["wA/f=nB", "wA/f=nB", "wA/f=hB"],
    ]
    P["P4"] = [
        ["-/r=rR0", "-/r=rR0"], ["-/r=rR0", "-/r=wR0"], ["-/r=wR0", "-/r=rR0"], ["-/r=wR0", "-/r=wR0"],
        ["-/r=wR0", "-/r=wR1"], ["-/r=wR1,rR0", "-/r=wR0"], ["-/r=rR0,wR1", "-/r=rR0", "-/r=wR1"],
        ["wA/r=rR0", "wB/r=rR0"], ["wA/r=wR0", "wB/r=wR0"], ["wA/r=wR0", "wB/r=wR1"], ["wA/r=wR0", "wB/r=wR1", "rA/r=rR0"],
        ["rA/r=wR0", "rA/r=rR1", "rA/r=wR1"], ["wB/r=rR0", "rA/r=rR0", "wA/r=wR0"], ["wA/r=wR1,wR0", "wB", "rB/r=rR1"],
        ["wB", "rA/r=wR0", "wA/r=rR1"], ["wB/r=rR0", "rA/r=wR1", "wA/r=rR0"], ["-/r=wR0", "wA", "-/r=rR0"],
        ["wA/r=rR1", "-/r=wR1", "rA"], ["wB/r=wR0", "rA", "wA/r=wR0"], ["rA/r=rR0", "rB/r=rR0", "wA/r=wR0,rR1"],
    ]
    P["P5"] = [
        ["rB/e=rA", "wA"], ["rB/e=wA", "rA"], ["rB/e=wA", "wB"], ["wB/e=rA", "rA"], ["wB/e=rA", "wA"], ["-/e=wA", "-/e=wA"],
        ["-/e=rA", "-/e=rA"], ["-/e=wA", "-/e=wB"], ["wB/e=wA", "rA/e=rB"], ["wB", "rB/e=rA", "wA"], ["wB", "-/e=rA", "wA"],
        ["wB", "rA", "-/e=wA"], ["rA/e=rA", "wA"], ["wB/e=pA", "oA"], ["wB/e=oA", "wA/f=nB"], ["wB/e=rA", "wA/f=nB"],
    ]
    P["P6"] = [
        ["wA/par", "wB/par"], ["wA/par", "rA/par"], ["wB/par", "rA", "wA/par"], ["wB", "rA/par", "wA"], ["rA/par", "rA/par", "wA/par"],
        ["wA/f=hB/par", "wA/f=nB"], ["wA/r=wR0/par", "wB/r=rR0/par"], ["wB/e=rA/par", "wA"], ["pA,wB/par", "wA/f=nB/par"], ["oA,id/par", "wA"],
    ]
    P["P7"] = [
        ["wB", "rA", "wA", "rB"], ["wA", "wB", "rA", "rB", "wA"], ["rA", "rB", "wA", "wB"], ["wB", "rA", "rA", "wA"],
        ["wA/f=hB", "wB", "wA/f=nB", "rA", "wB/f=nA"], ["wB/r=rR0", "rA/r=rR0", "wA/r=wR0", "rB/r=rR1"],
    ]
    # identifier-only and identifier-carrying tasks claim nothing
    P["PI"] = [["rA", "id,rA", "id,rA"], ["wB", "id"], ["rA,id", "rA,id"], ["id", "id", "wA"], ["wA", "id,rB", "id,rA"]]
    # the same component as an optional view in both the iterator views and the entry views
    P["PE"] = [["rA", "oA/e=oA", "rA"], ["oA/e=oA", "rA"], ["rA/e=rA", "rA"], ["oB/e=oB", "oB/e=oB", "wA"], ["rA", "rB/e=rA", "rA"],
               ["oA/e=oA", "wA"], ["wB", "oA/e=oA", "wA"], ["pA/e=rB", "rB"], ["rB/e=pA", "oA"]]
    # all ordered pairs over a richer kind set (views, entry-only tasks, resource-only tasks)
    kx = ["rA", "wA", "oA", "pA", "rB", "wB", "oB", "pB", "-/e=rA", "-/e=wA", "-/e=oA", "-/e=pA", "-/r=rR0", "-/r=wR0"]
    P["PX1"] = [[a, b] for a in kx for b in kx]
    P["PX2"] = [[x, y, z] for x in ["wB", "rB"] for y in ["rA", "-/e=rA", "oA/e=oA"] for z in ["wA", "-/e=wA", "pA"]]
    P["PX3"] = [[a, b] for a in ["rA/e=rA", "oA/e=oA", "rB/e=wA", "wB/e=rA", "wA/e=rB"] for b in ["rA", "wA"]] + [[b, a] for a in ["rA/e=rA", "oA/e=oA", "rB/e=wA", "wB/e=rA", "wA/e=rB"] for b in ["rA", "wA"]]
    P["PQ"] = [["rB/e=pA", "wA"], ["wA", "wB/e=rA"], ["wB/e=rA/par", "wA"], ["wA/r=wR0", "wA/r=wR0"], ["rA/r=wR0", "wA/r=rR0"], ["wA", "rB/e=oA/par"],
               # a conflict with a task that is not the most recently added one; a resource task that matches no table
               # two tasks of the next stage both started early (disjoint filters)
               ["wA,wB", "wA/f=nB", "wB/f=nA"],
               # a harmless early-started task between the running stage and a conflicting candidate
               ["wB", "wA,rB", "wC", "rB"],
               ["wA", "rB", "wA"], ["-/r=wR0", "rA", "-/r=wR0"], ["rC/r=wR0", "wA", "wB/r=wR0"], ["rC/r=rR0", "wA", "wC/r=wR0", "rB"]]
    # all ordered quadruples over {rA, wA, wB}: has_run bookkeeping and early starts over three or four stages
    k4 = ["rA", "wA", "wB"]
    P["P8"] = [[a, b, c, d] for a in k4 for b in k4 for c in k4 for d in k4]
    # tasks with several views / resource views: the claim verifier walks the new task's views in canonical order and must
    # keep going past a component (resource) that the stage does not claim at all
    km = ["wB", "rB", "wA", "wC", "rA,wB", "rA,rB", "wA,rB", "rB,wA", "rA,wC", "rB,wC", "oA,wB", "rA,rB,wC"]
    P["PM"] = [[a, b] for a in km for b in km] + [
        ["-/r=wR1", "-/r=rR0,wR1"], ["-/r=wR1", "-/r=rR0,rR1"], ["-/r=rR1", "-/r=rR0,wR1"], ["-/r=wR1", "-/r=wR1,rR0"], ["wA/r=wR1", "wB/r=rR0,wR1"],
        ["wC", "wB", "rA,rB,wC"], ["wB", "wC/par", "rA,wB/par"],
    ]
    # resource conflicts through the resource that is NOT the head of the world's resource list, with tables in use; entry
    # view lists of two components (the table holding the contended entity lacks the first-declared one)
    P["PR"] = [["wA/r=wR1", "wB/r=wR1"], ["wA/r=rR1", "wB/r=wR1"], ["wA/r=wR1", "rA", "wB/r=rR1"], ["rC/r=wR1", "wA", "wB/r=wR1"],
               # three resources: the viewed ones leave a gap in list order (R0 and R2 viewed, R1 not)
               ["wA/r=wR2,rR0", "wB/r=wR2"], ["-/r=wR2,rR0", "-/r=wR2"], ["wA/r=rR0,wR2", "wB/r=rR2"], ["wA/r=wR2", "wB/r=rR2,rR0"], ["wA/r=rR0,rR2", "wB/r=wR2", "rA/r=rR2"],
               ["wC/e=wB,wA", "wA"], ["wC/e=wA,wB", "wB"], ["wA", "wC/e=rB,rA"], ["rC/e=pB,pA", "rA"], ["wC/e=wB,wA/par", "wA/par"]]
    P["PC"] = [
        ["wC", "rA", "wA"], ["wB,rC", "rA", "wA,wC"], ["wC/f=hA", "wC/f=nA", "rC"], ["wB", "wC", "rA", "wA"],
    ]
    return P


QUICK_P2 = [
    ["wB", "rA", "wA"], ["wB", "wA", "rA"], ["rB", "rA", "wA"], ["wA", "rA", "wA"], ["wA", "wB", "wA"], ["rA", "rA", "wA"],
    ["wB", "rB", "wA"], ["rA", "wB", "rB"], ["wA", "rB", "wB"], ["rB", "wA", "wB"], ["wB", "wB", "rA"], ["rA", "rB", "wB"],
    ["wA", "wA", "rB"], ["rB", "wB", "rA"], ["wB", "rA", "rA"], ["rA", "wA", "rB"],
]
QUICK_P1 = [["rA", "rA"], ["rA", "wA"], ["wA", "rA"], ["wA", "wA"], ["wA", "wB"], ["oA", "pA"], ["pA", "rB"], ["oA", "oA"],
            ["rA", "oA"], ["pA", "pA"], ["wB", "pA"], ["rB", "rA"]]


def main():
    P = pools()
    quick = [("P2", s) for s in QUICK_P2] + [("P1", s) for s in QUICK_P1]
    for p in ("P3", "P4", "P5", "P6"):
        quick += [(p, s) for s in P[p][:3]]
    quick += [("P7", P["P7"][0]), ("PC", P["PC"][0])]
    quick += [("PI", s) for s in P["PI"][:3]] + [("PE", s) for s in P["PE"][:3]]
    # tables reached only through entry views (by the earlier or by the later task), ParSystem entry views,
    # and tasks that conflict on a component and on a resource at once
    quick += [("PQ", s) for s in P["PQ"]]
    quick += [("PM", s) for s in (["wB", "rA,wB"], ["wB", "rA,rB"], ["wC", "rA,rB,wC"], ["rA,wC", "rB,wC"], ["rA,wB", "wB"], ["-/r=wR1", "-/r=rR0,wR1"], ["-/r=wR1", "-/r=rR0,rR1"], ["wC", "wB", "rA,rB,wC"])]
    quick += [("PR", s) for s in (["wA/r=wR2,rR0", "wB/r=wR2"], ["-/r=wR2,rR0", "-/r=wR2"], ["wA/r=wR1", "wB/r=wR1"], ["wA/r=rR1", "wB/r=wR1"], ["wC/e=wB,wA", "wA"], ["wA", "wC/e=rB,rA"])]
    quick += [("P8", s) for s in (["wA", "rA", "wA", "rA"], ["wB", "wA", "rA", "wA"], ["rA", "wA", "wB", "wA"])]
    # the decision table of entry views against plain views: a task that reaches A only through its entry views (required and
    # optional, shared and exclusive) next to a reader / writer of A, in both orders where it matters (round 12, C07-10)
    quick += [("PX1", s) for s in (["rA", "-/e=pA"], ["-/e=pA", "rA"], ["rA", "-/e=wA"], ["-/e=wA", "rA"], ["-/e=rA", "wA"], ["-/e=oA", "wA"],
                                    ["-/e=rA", "rA"], ["-/e=oA", "rA"])]
    quick += [("PE", ["rB/e=pA", "oA"])]
    # resource claims that merge while the component claims conflict on a shared table (round 12, C15-9)
    quick += [("PR", s) for s in (["wA", "wA/r=wR0"], ["wA/r=rR0", "wA/r=rR0"])]
    qset = {tuple(s) for _, s in quick}
    extra = []
    for p, lst in P.items():
        for s in lst:
            if tuple(s) not in qset and tuple(s) not in {tuple(x) for _, x in extra}:
                extra.append((p, s))
    os.makedirs(OUT, exist_ok=True)
    written = set()
    meta = {"quick": [], "thorough_extra": []}

    def weight(s):
        return len(s)

    def shard(items, nshards, prefix, key):
        bins = [[] for _ in range(nshards)]
        loads = [0] * nshards
        for p, s in sorted(items, key=lambda x: -weight(x[1])):
            i = loads.index(min(loads))
            bins[i].append((p, s))
            loads[i] += weight(s)
        for i, b in enumerate(bins):
            if not b:
                continue
            mods, names = [], []
            for p, s in b:
                n, code = gen_schedule(s)
                mods.append(code)
                names.append((n, " | ".join(s), p))
            body = HEADER + "\n".join(mods) + "\n\nfn main() {\n    shard_main(&[%s]);\n}\n" % ", ".join('("%s", "%s", %s::run as fn(&mut ShardCtx))' % (d, p, n) for n, d, p in names)
            fn = "%s_%02d" % (prefix, i)
            path = os.path.join(OUT, fn + ".rs")
            written.add(fn + ".rs")
            if not os.path.exists(path) or open(path).read() != body:
                open(path, "w").write(body)
            meta[key].append({"bin": fn, "schedules": [{"name": d, "pool": p, "tasks": len(d.split(" | "))} for n, d, p in names]})

    shard(quick, 16, "sq", "quick")
    shard(extra, 64, "st", "thorough_extra")
    for f in os.listdir(OUT):
        if (f.startswith("sq_") or f.startswith("st_")) and f not in written:
            os.remove(os.path.join(OUT, f))
    mpath = os.path.join(ROOT, "mc", "sched", "schedules.json")
    text = json.dumps(meta, indent=1)
    if not os.path.exists(mpath) or open(mpath).read() != text:
        open(mpath, "w").write(text)
    nq = sum(len(b["schedules"]) for b in meta["quick"])
    nt = sum(len(b["schedules"]) for b in meta["thorough_extra"])
    print("quick: %d schedules in %d bins; thorough adds %d schedules in %d bins" % (nq, len(meta["quick"]), nt, len(meta["thorough_extra"])))


if __name__ == "__main__":
    main()
