#!/usr/bin/env python3
"""Setup helper: builds, with cargo profile `nodebug` (release without debug assertions / overflow checks), every binary the
quick tier re-runs from that profile, so that the quick checks themselves do not have to compile anything."""
import json, os, subprocess, sys
ROOT = os.path.dirname(os.path.dirname(os.path.abspath(__file__)))
MC = os.path.join(ROOT, "mc")
env = dict(os.environ, CARGO_NET_OFFLINE="true", CARGO_TARGET_DIR=os.path.join(ROOT, "target"))
cmds = [["-p", "hist", "-p", "split", "-p", "dup", "-p", "fault"]]
g = json.load(open(os.path.join(MC, "grid", "grid.json")))
gb = []
for k in ("quick_seq", "quick_par", "res"):
    for b in g.get(k, []):
        gb += ["--bin", b]
cmds.append(["-p", "grid"] + gb)
s = json.load(open(os.path.join(MC, "sched", "schedules.json")))
sb = []
for sh in s["quick"]:
    sb += ["--bin", sh["bin"]]
cmds.append(["-p", "sched"] + sb)
rc = 0
for c in cmds:
    r = subprocess.run(["cargo", "build", "--profile", "nodebug", "--offline"] + c, cwd=MC, env=env, stdout=subprocess.PIPE, stderr=subprocess.STDOUT, text=True)
    print(r.stdout.strip().splitlines()[-1] if r.stdout.strip() else "")
    rc = rc or r.returncode
sys.exit(rc)
