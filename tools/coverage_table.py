#!/usr/bin/env python3
"""Regenerates the quick-tier coverage table of DESIGN.md from evidence/*.json."""
import json, os
ROOT = os.path.dirname(os.path.dirname(os.path.abspath(__file__)))
rows = []
for i in range(1, 19):
    p = "C%02d" % i
    e = json.load(open(os.path.join(ROOT, "evidence", p + ".json")))
    c = e["coverage"]
    if "states" in c and e["level"] == "model_checking":
        cov = "{:,} states, {:,} transitions".format(c["states"], c["transitions"])
    else:
        cov = "{:,} evaluations, {:,} distinct cases".format(c.get("evaluations", 0), c.get("distinct_nontrivial", 0))
    if "configs" in c:
        b = "; ".join("%s d≤%s" % (x.get("alphabet"), x.get("depth_completed")) for x in c["configs"] if isinstance(x, dict))
    elif "schedule_types" in c:
        b = "%d schedule types, %d task positions, max %d orders per run" % (c["schedule_types"], c["task_positions"], c["max_orders_of_one_run"])
    elif "catalogue_worlds" in c:
        b = "%d catalogue worlds (depth %s)" % (c["catalogue_worlds"], c.get("catalogue_depth"))
    elif "bases" in c:
        b = "%d bases" % c["bases"] + (", %d inputs" % c["inputs"] if "inputs" in c else "") + (", %d operations" % c["operations"] if "operations" in c else "")
    elif "programs" in c:
        b = "%d programs" % c["programs"]
    elif "state_sets" in c:
        b = "; ".join("%s d≤%s" % (x.get("name"), x.get("depth")) if isinstance(x, dict) else str(x) for x in c["state_sets"])
    elif "registries" in c:
        b = "%d registries, %d constructor calls, %d batches" % (c["registries"], c["constructor_calls"], c["batches"])
    else:
        b = ""
    rows.append("| %s | %s | %s | %s | %.0f s |" % (p, e["level"], cov, b, e.get("wall_s", 0)))
p = os.path.join(ROOT, "DESIGN.md")
s = open(p).read()
head = "| id | level | coverage | bounds | wall |\n|---|---|---|---|---|\n"
a = s.index(head) + len(head)
b = s.index("\n\n", a)
s = s[:a] + "\n".join(rows) + s[b:]
open(p, "w").write(s)
print("\n".join(rows))
